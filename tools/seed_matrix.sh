#!/bin/bash
# seed_matrix.sh [jobs]: run every seeded mutant and every selftest mutant against the quick check of its property in scratch copies; writes seeded/detections.tsv
j=${1:-4}
cd /verif
( for d in seeded/*/; do [ -f $d/patch.diff ] && echo /verif/${d}patch.diff; done; ls /verif/selftest/mutants/*.patch ) | xargs -P $j -I{} tools/mutscratch.sh {} > /tmp/seed_matrix.log 2>&1
grep -A1 '^==' /tmp/seed_matrix.log | grep -v '^--' | paste - - | sed 's/^== //' > seeded/detections.tsv
grep -c 'violations=0 ' seeded/detections.tsv
