#!/bin/bash
# replay.sh <repo-pkg-dir> <test-file> <TestName>: run an in-package replay test against /repo via -overlay (nothing is written to /repo)
pkg=$1; file=$2; name=$3; repo=${4:-/repo}
tmp=$(mktemp -d /tmp/govc-replay-XXXXXX)
echo "{\"Replace\": {\"$repo/$pkg/$(basename $file)\": \"$file\"}}" > $tmp/ov.json
(cd $repo && GOFLAGS=-mod=mod GOPROXY=off go test -overlay $tmp/ov.json -vet=off -count=1 -timeout 60s -run "^$name\$" ./$pkg/ 2>&1 | tail -15)
rc=${PIPESTATUS[0]}
rm -rf $tmp
exit $rc
