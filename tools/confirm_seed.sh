#!/bin/bash
# confirm_seed.sh <dir with patch.diff, meta.json, demo files>: verify a seeded mutant in a scratch worktree of /repo.
# Prints CONFIRMED or REJECTED:<reason>.
d=$1; id=$(basename $d)
export GOFLAGS=-mod=mod GOPROXY=off
wt=/tmp/wt-seed-$id
git -C /repo worktree remove --force $wt >/dev/null 2>&1
git -C /repo worktree add -q $wt HEAD || { echo "$id REJECTED:worktree"; exit 1; }
cleanup(){ git -C /repo worktree remove --force $wt >/dev/null 2>&1; }
cd $wt
place=$(jq -r '.demo.place_at // empty' $d/meta.json)
run=$(jq -r '.demo.run // empty' $d/meta.json)
demo=$(ls $d/zz_demo*_test.go 2>/dev/null | head -1)
[ -z "$place" ] && place="$(dirname $(grep -l . $d/PLACEMENT.txt >/dev/null 2>&1 && sed -n 's/.*\(cache[^ ]*\|server[^ ]*\)\/zz_demo.*/\1/p' $d/PLACEMENT.txt | head -1))/$(basename $demo)"
if [ -z "$demo" ] || [ -z "$place" ]; then echo "$id REJECTED:no-demo"; cleanup; exit 1; fi
pkgdir=$(dirname $place)
# demo must pass on the unchanged tree
cp $demo $wt/$place
tests=$(grep -o 'func Test[A-Za-z0-9_]*' $demo | sed 's/func //' | paste -sd'|')
if ! go test -vet=off -count=1 -timeout 300s -run "^($tests)\$" ./$pkgdir/ > /tmp/seed-$id-base.log 2>&1; then echo "$id REJECTED:demo-fails-on-base"; cleanup; exit 1; fi
rm $wt/$place
if ! git apply $d/patch.diff 2>/tmp/seed-$id-apply.log; then echo "$id REJECTED:patch-does-not-apply"; cleanup; exit 1; fi
if ! go build ./... > /tmp/seed-$id-build.log 2>&1; then echo "$id REJECTED:does-not-compile"; cleanup; exit 1; fi
if ! go test -vet=off -count=1 -timeout 20m ./... > /tmp/seed-$id-suite.log 2>&1; then
  # one retry for the known flaky test
  if ! go test -vet=off -count=1 -timeout 20m ./... > /tmp/seed-$id-suite2.log 2>&1; then echo "$id REJECTED:existing-tests-fail"; cleanup; exit 1; fi
fi
cp $demo $wt/$place
if go test -vet=off -count=1 -timeout 300s -run "^($tests)\$" ./$pkgdir/ > /tmp/seed-$id-mut.log 2>&1; then echo "$id REJECTED:demo-passes-with-mutant"; cleanup; exit 1; fi
echo "$id CONFIRMED place=$place tests=$tests"
cleanup
