#!/bin/bash
# run_seed.sh <dir> [prop]: run the quick check of the mutant's property on a scratch copy of /repo with the patch applied
d=$1; id=$(basename $d); prop=${2:-$(jq -r .property $d/meta.json)}
export GOFLAGS=-mod=mod GOPROXY=off
tmp=$(mktemp -d /tmp/govc-seed-XXXXXX)
rsync -a --exclude .git /repo/ $tmp/
if ! (cd $tmp && patch -p1 -s < $d/patch.diff >/dev/null 2>&1); then echo "$id: patch does not apply"; rm -rf $tmp; exit 2; fi
out=$(/verif/bin/govc check -repo $tmp -prop $prop -replaydir $tmp/replay -evidence "" 2>&1)
nv=$(echo "$out" | grep -c '^VIOLATION')
echo "$id prop=$prop violations=$nv $(echo "$out" | tail -1)"
echo "$out" | grep '^VIOLATION' | sed 's/.*obligation=//' | head -4
rm -rf $tmp
