#!/usr/bin/env python3
"""Writes /verif/seeded/<id>/meta.json from the agent's own description (agent_meta.json), my confirmation
(seeded/confirm.log, produced by tools/confirm_seed.sh in a scratch worktree) and the detection matrix
(seeded/detections.tsv, produced by tools/seed_matrix.sh / tools/mutscratch.sh)."""
import json, os, re, glob
root = '/verif/seeded'
confirm = {}
for l in open(os.path.join(root, 'confirm.log')):
    f = l.split()
    if len(f) >= 2:
        confirm[f[0]] = l.strip()
det = {}
p = os.path.join(root, 'detections.tsv')
if os.path.exists(p):
    for l in open(p):
        m = re.match(r'(\S+) prop=(\S+) violations=(\d+) (.*)', l.strip())
        if m:
            det[m.group(1)] = {'property_checked': m.group(2), 'violations': int(m.group(3)), 'detail': m.group(4)}
for d in sorted(glob.glob(os.path.join(root, '*/'))):
    sid = os.path.basename(d.rstrip('/'))
    am = os.path.join(d, 'agent_meta.json')
    if not os.path.exists(am):
        continue
    a = json.load(open(am))
    dd = det.get(sid)
    meta = {
        'id': sid,
        'property': a.get('property'),
        'title': a.get('title'),
        'what_breaks': a.get('what_breaks'),
        'needs_to_manifest': a.get('needs_to_manifest'),
        'files': a.get('files'),
        'demo': a.get('demo'),
        'written_by': 'independent sub-agent given only the property text and a scratch worktree of /repo',
        'agent_ran': a.get('ran') or a.get('agent_ran'),
        'confirmed_by_me': {
            'how': 'tools/confirm_seed.sh in a scratch git worktree of /repo: demo passes on the unchanged tree; patch applies; go build ./... ok; '
                   'go test -vet=off -count=1 ./... passes with the patch; demo fails with the patch; worktree removed afterwards',
            'result': confirm.get(sid, 'not confirmed'),
        },
        'detected': bool(dd and dd['violations'] > 0),
        'check_run': ('tools/mutscratch.sh %s/patch.diff %s  (quick check of the property on a scratch copy of /repo with the patch applied)' % (d.rstrip('/'), dd['property_checked'])) if dd else None,
        'detected_by': dd['detail'] if dd else None,
    }
    json.dump(meta, open(os.path.join(d, 'meta.json'), 'w'), indent=1)
    print(sid, meta['detected'])
