#!/usr/bin/env python3
"""Debug helper: strip quantified assertions from an SMT file, run z3, print values of given terms.
usage: smtdebug.py file.smt2 [extra-assert ...] -- term1 term2 ..."""
import sys,subprocess
def sexprs(src):
    out=[];depth=0;start=None;i=0;n=len(src)
    while i<n:
        c=src[i]
        if c==';':
            j=src.find('\n',i); j=n if j<0 else j
            i=j; continue
        if c=='(':
            if depth==0: start=i
            depth+=1
        elif c==')':
            depth-=1
            if depth==0: out.append(src[start:i+1])
        i+=1
    return out
args=sys.argv[1:]
f=args[0]; rest=args[1:]
extra=[];terms=[]
if '--' in rest:
    k=rest.index('--'); extra=rest[:k]; terms=rest[k+1:]
else: extra=rest
items=sexprs(open(f).read())
keep=[]
for it in items:
    if it.startswith('(check-sat') or it.startswith('(get-'): continue
    if it.startswith('(assert') and 'forall' in it:
        # replace every (forall ...) subterm by true
        while True:
            k=it.find('(forall')
            if k<0: break
            d=0
            for j in range(k,len(it)):
                if it[j]=='(': d+=1
                elif it[j]==')':
                    d-=1
                    if d==0: break
            it=it[:k]+'true'+it[j+1:]
    keep.append(it)
goal=[k for k in keep if k.startswith('(assert')][-1:]
txt='\n'.join(keep+extra)+'\n(check-sat)\n'+''.join('(eval %s)\n'%t for t in terms)
open('/tmp/smtdebug.smt2','w').write(txt)
print(subprocess.run(['z3-new','-T:30','-smt2','/tmp/smtdebug.smt2'],capture_output=True,text=True).stdout)
