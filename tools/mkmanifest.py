#!/usr/bin/env python3
"""Regenerates /verif/MANIFEST.json from the claims table below."""
import json, subprocess

props = [json.loads(l) for l in open('/verif/properties.jsonl')]

TRUST = ("Trusted: the govc engine (go/ssa -> SMT), go/ssa, z3/cvc5; assumed contracts of library functions "
         "(listed per run in evidence.coverage.trusted_base); prelude axioms; machine model linux/amd64 with explicit wrap-around; "
         "goroutines not interleaved, channels not modelled. ")

# id -> (text, level_note, technique)
claims = {
 "C03": ("Deductive proof, for all argument values, heap states satisfying the SizedLRU invariant and all loop iteration counts, that every "
         "index operation (Add, Get, Reserve, Unreserve, removeElement) preserves: currentSize == reservedSize + sum of 4KiB-rounded entry sizes, "
         "currentSize <= maxSize, uncompressedSize == sum of rounded logical sizes, list/map/entry agreement; plus exact contracts of roundUp4k and sumLargerThan "
         "under machine arithmetic.",
         TRUST + "Decided: the accounting invariant as an inductive invariant over the index operations (history quantifier by induction over operations). "
         "Not decided here: that file sizes on disk equal the recorded sizes; float metrics.",
         "contract-based deductive verification: object invariant + per-method pre/postconditions, VCs from go/ssa, discharged by z3/cvc5"),
 "C05": ("Deductive proof that eviction in Add and Reserve removes only the back (least recently used) entry of the recency sequence and only while the "
         "incoming item does not fit (call-site obligations at every removeElement call), that survivors are a front part of the previous sequence (Reserve), "
         "that a hit in Get moves the entry to the front, and that oversize items are rejected without any change.",
         TRUST + "Recency order is the ghost sequence c.ll.seq specified through the assumed contracts of container/list.",
         "contract-based deductive verification: call-site assertions + loop invariants over a ghost recency sequence"),
 "C17": ("Deductive proof of the admission predicate of Reserve: with max_size_hard_limit > 0 a reservation whose accounted size + observed eviction backlog + size "
         "exceeds the limit is refused with cache.Error 507 and leaves index, accounting and queue untouched; otherwise it is admitted; without the option the branch is never taken.",
         TRUST + "The backlog is the value observed by the atomic Load (ghost qobs); how far the remover lags is environment.",
         "contract-based deductive verification: exact postconditions on Reserve over machine integers"),
}

checks = []
for p in props:
    pid = p["id"]
    if pid not in claims:
        continue
    text, note, tech = claims[pid]
    checks.append({
        "property_id": pid,
        "quick_cmd": "./check %s quick" % pid,
        "thorough_cmd": "./check %s thorough" % pid,
        "evidence_file": "/verif/evidence/%s.json" % pid,
        "replay_cmd_template": "./check --replay {path}",
        "engine": "govc",
        "level_claimed": {"category": "proof", "text": text, "design_ref": "DESIGN.md section 4 (%s) and section 10" % pid},
        "level_note": note,
        "technique": tech,
    })

na_reasons = {}
default_reason = "contracts for the functions this property depends on are not completed yet in this framework (see DESIGN.md section 10 for status); not claimed rather than claimed with undischarged obligations"
not_applicable = [{"property_id": p["id"], "reason": na_reasons.get(p["id"], default_reason)} for p in props if p["id"] not in claims]

hooks_commits = subprocess.run(["git", "-C", "/repo", "log", "--format=%H %s"], capture_output=True, text=True).stdout.strip().split("\n")
hook_commits = [l.split()[0] for l in hooks_commits if " verif:" in l]

m = {
 "version": 1,
 "setup_cmd": "cd /verif/engine && GOFLAGS=-mod=mod GOPROXY=off go build -o /verif/bin/govc ./cmd/govc",
 "hooks": {
   "guard": "verif",
   "enable": "-tags verif (only adds comment-only *_contracts_verif.go files holding the //@ contracts; no executable code)",
   "baseline_off_cmd": "cd /repo && GOFLAGS=-mod=mod GOPROXY=off go test -vet=off -count=1 -timeout 25m ./...",
   "source_commits": hook_commits,
   "add_only": True,
 },
 "engines": [{"name": "govc", "path": "/verif/engine", "serves_properties": sorted(claims.keys()),
              "kind_free_text": "contract-based deductive verifier for Go written for this task: //@ contracts (requires/ensures/modifies/loop invariants/call-site assertions/ghost state) on the real functions, "
                                "verification conditions generated from go/ssa of /repo's working tree, discharged by z3 5.1.0, z3 4.8.12 and cvc5 1.0"}],
 "checks": checks,
 "not_applicable": not_applicable,
 "notes": "All checks rebuild the VCs from /repo's current working tree on every run; solver verdicts are cached by query hash under /verif/.cache (a source change changes the query).",
}
json.dump(m, open('/verif/MANIFEST.json', 'w'), indent=1)
print("claimed:", sorted(claims.keys()))
