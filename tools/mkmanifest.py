#!/usr/bin/env python3
"""Regenerates /verif/MANIFEST.json from the claims table below."""
import json, subprocess

props = [json.loads(l) for l in open('/verif/properties.jsonl')]

TRUST = ("Trusted: the govc engine (go/ssa -> SMT), go/ssa, z3/cvc5; assumed contracts of library functions "
         "(listed per run in evidence.coverage.trusted_base); prelude axioms; machine model linux/amd64 with explicit wrap-around; "
         "goroutines not interleaved, channels not modelled. ")

# id -> (text, level_note, technique)
claims = {
 "C03": ("Deductive proof, for all argument values, all heap states satisfying the SizedLRU invariant, all outcomes of every external call and all loop iteration counts, that "
         "every index operation (Add, Get, Reserve, Unreserve, removeElement, RemoveElement, RemoveIfCurrent) preserves: currentSize == reservedSize + sum of 4KiB-rounded entry sizes, "
         "currentSize <= maxSize, uncompressedSize == sum of rounded logical sizes, list/map/entry agreement; that Stats reports exactly these fields; and that Put, get, "
         "availableOrTryProxy and commit release exactly the bytes they reserved on every return path (ghost `held` returns to its entry value), under the lock invariant of diskCache.mu "
         "(Lock havocs the protected state and assumes the invariant, Unlock must re-establish it), so the result holds for every interleaving of critical sections.",
         TRUST + "Decided: the accounting invariant as an inductive invariant over index operations and critical sections, and reservation neutrality of each request. "
         "Not decided: that file sizes on disk equal the recorded sizes; float metrics; the meta-argument that per-critical-section preservation implies the invariant whenever the mutex is free.",
         "contract-based deductive verification: object invariant + lock invariant + ghost reservation ownership; VCs from go/ssa; z3/cvc5"),
 "C04": ("Deductive proof of the mechanism behind the directory invariant: on every return path of Put and get each temp file created by the request is either removed or adopted by the index "
         "(ghost tmpOpen/adopted typestate, with the file name and random suffix handed to commit proved equal to those of the created file); the name produced by tempfile.Create is "
         "<base>-<random>[.v1]; every entry leaving the index through removeElement is queued for deletion exactly once and an overwritten entry's predecessor is queued.",
         TRUST + "Not decided: the history-level statement itself (files == index + queue + in flight) is the inductive consequence of these obligations and is not mechanised; "
         "the asynchronous remover (channel hand-over is an assumed contract), file-system behaviour, and start-up loading (load.go) are outside.",
         "contract-based deductive verification: ghost typestate for temp files, call-site assertions, trusted queue contract"),
 "C05": ("Deductive proof that eviction in Add and Reserve removes only the back (least recently used) entry of the recency sequence and only while the "
         "incoming item does not fit (call-site obligations at every removeElement call, exact comparison), that survivors of Reserve are a front part of the previous sequence, "
         "that a hit in Get moves the entry to the front, that Contains/availableOrTryProxy look entries up through Get, that oversize items are rejected without any change, "
         "and that Put reserves the logical size before writing and overwriting queues the predecessor only inside Add (after the new file is complete).",
         TRUST + "Recency order is the ghost sequence c.ll.seq specified through the assumed contracts of container/list.",
         "contract-based deductive verification: call-site assertions + loop invariants over a ghost recency sequence"),
 "C06": ("Deductive proof that GetValidatedActionResult hands every blob the stored ActionResult refers to - each output file without inline contents, the Tree blob of each output directory "
         "(fetched with the digest's own size and the returned size compared), every file node with a digest in the Tree's root and in every child directory, stdout and stderr - to the fail-fast "
         "presence check (loop invariants over an arbitrary element of each of the five traversals, ghost content set of the pending slice), that the check is called in fail-fast mode, that "
         "findMissingCasBlobsInternal(failFast) returns nil only if no blob was found missing (local: every slot nil-ed by an index hit with equal size or the empty blob; backend: the fail-fast "
         "flag is false after all workers finished - the obligation that exposed the select race fixed in /repo), that a local hit refreshes recency (lookups only through SizedLRU.Get: encapsulation census), "
         "and that a missing blob yields (nil,nil,nil), not an error.",
         TRUST + "ASSUMED: protobuf unmarshalling yields no nil elements in repeated fields; worker goroutines are not interleaved (their effect on the fail-fast flag is modelled by havoc at yield points). "
         "Not decided: the HTTP/gRPC mapping of a miss to 404/NotFound (server/ not yet under contract), presence 'in the backend' beyond proxy.Contains.",
         "contract-based deductive verification: arbitrary-element loop invariants, call-site assertions, ghost content sets"),
 "C10": ("Deductive proof of exact functional contracts: filterNonNil returns precisely the non-nil elements in order with duplicates kept (count == number of non-nil, j-th survivor at position nncount(j)); "
         "findMissingLocalCAS nils slot k iff digest k is the empty blob or is indexed with the stated size (one critical section, for every list length), counts the rest exactly and touches nothing outside its chunk; "
         "findMissingCasBlobsInternal visits every element exactly once for every length (batching invariant, chunk aliasing asserted at the call site); Contains/isSizeMismatch exact size comparison; "
         "oversize digests are never queued for the backend.",
         TRUST + "Not decided: lost updates between backend worker goroutines and the final filter (needs the happens-before of wg.Wait, assumed); the gRPC wrapper in server/ is not yet under contract.",
         "contract-based deductive verification: functional postconditions with a counting spec function, quantified loop invariants over absolute array positions"),
 "C11": ("Deductive proof that validate.ActionResult is sound AND complete for validAR - a predicate written from the property (non-nil elements, non-empty relative paths, non-nil digests with non-negative size and "
         "64-hex hash, optional stdout/stderr digests well formed) - for all messages (arbitrary-element invariants over the five lists), and that GetValidatedActionResult validates what it returns.",
         TRUST + "hex64 is the uninterpreted meaning of HashKeyRegex; protobuf (un)marshalling assumed. NOT yet under contract: the store side (UpdateActionResult, HTTP PUT validate-before-store), "
         "worker metadata and inlining in server/ - the claim covers the validator and the read path only.",
         "contract-based deductive verification: soundness and completeness postconditions of the validator"),
 "C07": ("Deductive proof of the lock discipline and of index/accounting integrity under all interleavings of critical sections: every SizedLRU method is called with diskCache.mu held "
         "(precondition at every call site), every function returns with the mutex released on every path, no path locks twice, the invariant is re-established at every Unlock, and nothing learnt in "
         "one critical section is used in a later one without re-validation (Lock havocs the protected state) - this is the obligation that exposed the stale-element removal fixed in eda5fe3.",
         TRUST + "Decided: the index/accounting half of the property and the lock discipline. NOT decided: torn or mixed file contents while a read streams (rests on POSIX unlink/open semantics), "
         "deadlock freedom involving the semaphore/channels/worker pool, data races on memory not protected by mu.",
         "contract-based deductive verification: lock invariant (havoc at Lock, assert at Unlock), mutex typestate ghost, rely/guarantee on reservations"),
 "C12": ("Deductive proof, with the backend modelled as a fully nondeterministic cache.Proxy (any reader/size/error combination), that diskCache.get: leaks no reservation and no temp file on any "
         "return path, never commits an entry whose size disagrees with the requested size, is negative or exceeds max_proxy_blob_size, validates compressed blobs before commit and (after fix 0da76b0) "
         "checks the copied length of uncompressed entries before commit, returns a hit only with a non-negative size and nil error, and never adds to the index on a miss/error return; "
         "that Put hands the blob to the backend at most once and never for rejected uploads; that Contains believes the backend only within the size limits.",
         TRUST + "Not decided: internals of the http/s3/gcs/azblob/grpc proxy clients, connection/goroutine leaks inside them, file-descriptor balance, byte-level equality of proxied content.",
         "contract-based deductive verification: nondeterministic interface contract for the backend, ghost resource typestate, call-site assertions"),
 "C17": ("Deductive proof of the admission predicate of Reserve: with max_size_hard_limit > 0 a reservation whose accounted size + observed eviction backlog + size "
         "exceeds the limit is refused with cache.Error 507 and leaves index, accounting and queue untouched; otherwise it is admitted; without the option the branch is never taken; "
         "local hits in availableOrTryProxy/Contains never call Reserve.",
         TRUST + "The backlog is the value observed by the atomic Load (ghost qobs); how far the remover lags is environment. Status mapping in the HTTP/gRPC front ends is not yet under contract.",
         "contract-based deductive verification: exact postconditions on Reserve over machine integers"),
 "C18": ("Deductive proof that Put refuses exactly the sizes above max_blob_size (size > limit => 400 and nothing stored; a 400 without reservation implies one of the three input guards, so size == limit is not refused), "
         "that get/availableOrTryProxy/Contains ask and believe the backend only for sizes <= max_proxy_blob_size and never commit a larger object.",
         TRUST + "Decided at the disk layer (every front end goes through diskCache.Put/Get/Contains). Not yet under contract: the front-end guards in server/, GetCapabilities, and the wiring of the limits in main.go.",
         "contract-based deductive verification: exact guard postconditions and call-site assertions"),
}

import importlib.util, os
_spec = importlib.util.spec_from_file_location("claims_extra", os.path.join(os.path.dirname(os.path.abspath(__file__)), "claims_extra.py"))
_mod = importlib.util.module_from_spec(_spec); _spec.loader.exec_module(_mod)
claims.update(_mod.claims(TRUST))
na_reasons_extra = _mod.na_reasons
for _k, _v in getattr(_mod, "addenda", {}).items():
    _t, _n, _te = claims[_k]
    claims[_k] = (_t + " " + _v, _n, _te)

checks = []
for p in props:
    pid = p["id"]
    if pid not in claims:
        continue
    text, note, tech = claims[pid]
    checks.append({
        "property_id": pid,
        "quick_cmd": "./check %s quick" % pid,
        "thorough_cmd": "./check %s thorough" % pid,
        "evidence_file": "/verif/evidence/%s.json" % pid,
        "replay_cmd_template": "./check --replay {path}",
        "engine": "govc",
        "level_claimed": {"category": "proof", "text": text, "design_ref": "DESIGN.md section 4 (%s) and section 10" % pid},
        "level_note": note,
        "technique": tech,
    })

na_reasons = dict(na_reasons_extra)
default_reason = "contracts for the functions this property depends on are not completed yet in this framework (see DESIGN.md section 10 for status); not claimed rather than claimed with undischarged obligations"
not_applicable = [{"property_id": p["id"], "reason": na_reasons.get(p["id"], default_reason)} for p in props if p["id"] not in claims]

hooks_commits = subprocess.run(["git", "-C", "/repo", "log", "--format=%H %s"], capture_output=True, text=True).stdout.strip().split("\n")
hook_commits = [l.split()[0] for l in hooks_commits if " verif:" in l]

m = {
 "version": 1,
 "setup_cmd": "cd /verif/engine && GOFLAGS=-mod=mod GOPROXY=off go build -o /verif/bin/govc ./cmd/govc",
 "hooks": {
   "guard": "verif",
   "enable": "-tags verif (only adds comment-only *_contracts_verif.go files holding the //@ contracts; no executable code)",
   "baseline_off_cmd": "cd /repo && GOFLAGS=-mod=mod GOPROXY=off go test -vet=off -count=1 -timeout 25m ./...",
   "source_commits": hook_commits,
   "add_only": True,
 },
 "engines": [{"name": "govc", "path": "/verif/engine", "serves_properties": sorted(claims.keys()),
              "kind_free_text": "contract-based deductive verifier for Go written for this task: //@ contracts (requires/ensures/modifies/loop invariants/call-site assertions/ghost state) on the real functions, "
                                "verification conditions generated from go/ssa of /repo's working tree, discharged by z3 5.1.0, z3 4.8.12 and cvc5 1.0"}],
 "checks": checks,
 "not_applicable": not_applicable,
 "notes": "All checks rebuild the VCs from /repo's current working tree on every run; solver verdicts are cached by query hash under /verif/.cache (a source change changes the query).",
}
json.dump(m, open('/verif/MANIFEST.json', 'w'), indent=1)
print("claimed:", sorted(claims.keys()))
