"""Claims added after round 0 (kept apart from mkmanifest.py so that each can be edited on its own)."""


def claims(TRUST):
    return {
        "C01": (
            "Deductive proof of the verification chain of CAS uploads at the disk layer and in BatchUpdateBlobs. casblob.WriteAndClose (zstd storage): success implies that exactly `size` bytes were consumed "
            "from the reader, that the reader was at EOF after them (trailing-data probe), that the bytes hashed are exactly the bytes consumed in order (abstract byte streams, loop invariant over all chunk counts), "
            "that their SHA-256 equals the declared hash, and that the chunk table is finalised only after all of this (call-site obligation at the Seek that starts the finalisation); the chunk count is "
            "ceil(size/1MiB) so well-formed uploads are not cut short. sha256verifier (uncompressed storage): Close succeeds only if the byte count and the digest of everything written match, and the wrapped "
            "file is closed only after both checks. writeAndCloseFile routes every CAS upload through one of the two, with the declared hash and size; diskCache.Put indexes an entry only after that succeeded "
            "(commit call-site obligations, nothing adopted on any error return, every error is a *cache.Error, exact guard on size/hash form); SizedLRU.Add leaves an accepted entry present. "
            "grpcServer.BatchUpdateBlobs: a response carries status OK only for a digest whose Put(CAS, declared hash, declared size) returned nil (loop invariant over all responses, ghost set of acknowledged digests) - "
            "the obligations that exposed two genuine defects fixed in /repo (wrong declared size acknowledged; unsupported compressor acknowledged)."
            " Also: grpcServer.UpdateActionResult stores inlined output files, stdout and stderr under their stated digests in the CAS; grpcServer.fetchItem (Remote Asset) stores and acknowledges a blob under the digest pinned by the client "
            "whenever one is given; the ByteStream writer goroutine and the HTTP handler pass the declared digest and size to the cache.",
            TRUST + "ASSUMED: io.ReadFull / hash.Hash / hex / io.MultiWriter behave as documented (stated as contracts over abstract byte streams); sync.Pool hands out an unshared 1 MiB buffer; the zstd codec. "
            "NOT decided: SpliceBlob, zstd decompression of uploads in the front ends (HTTP, ByteStream, BatchUpdateBlobs), what the ByteStream handler reports to the client (channel traffic), cgo zstd; every front end ends in diskCache.Put, which is under contract.",
            "contract-based deductive verification: ghost byte streams for reader and hasher, loop invariants, call-site assertions at the commit points, ghost acknowledgement set"),
        "C02": (
            "Deductive proof of what the read path relies on: casblob.readHeader accepts a header only if it is well formed (at least two offsets, strictly increasing and non-negative, "
            "positive logical size, non-zero chunk size and the chunk count matching the logical size for zstd) for all header contents; the two readers cannot divide by zero, index or slice out of "
            "range for any accepted header, any offset in range and any decoded first-chunk length; diskCache.get / availableOrTryProxy pass the requested size and offset unchanged to the reader, answer a hit only with the "
            "indexed logical size when it agrees with the requested one, reject offsets outside [0,size), and drop (not serve) entries whose file fails validation."
            " ByteStream.Read (verified as a whole, including absence of panics): asks the cache for exactly the parsed digest, size and read_offset (0 <= offset <= size), and the payload bytes handed to Send never exceed a non-zero read_limit, "
            "on every return path including errors (ghost byte counter, loop invariant); getBlobData asks for the CAS blob with the stated size from offset 0.",
            TRUST + "Byte contents are not modelled: equality of delivered and stored bytes rests on the assumed zstd codec and on the arithmetic proved here. BatchReadBlobs, GetTree's decoding and the HTTP GET body copy are not under contract.",
            "contract-based deductive verification: header well-formedness postcondition, safety obligations over symbolic headers, call-site assertions"),
        "C08": (
            "Deductive proof of the write ordering the crash argument rests on: in casblob.WriteAndClose the header is written first with an all-zero table except the first slot (seven binary.Write calls, counted), the chunk table "
            "is rewritten exactly once, only after the length probe and the digest comparison succeeded, and is followed by exactly one fsync before the function reports success; writeAndCloseFile and diskCache.Put report "
            "success only after an fsync (ghost fsync counter in the postcondition; call-site obligation at commit), and the index insertion (commit) comes after that; readHeader rejects a table that is not strictly increasing / "
            "does not end at the file size (so an unfinalised table is never served).",
            TRUST + "NOT decided: the crash images themselves (what the file system persists at each point) and start-up loading (load.go is not under contract), eviction unlink ordering; the claim is the ordering obligations only.",
            "contract-based deductive verification: ghost event counters (binary.Write, fsync) in postconditions and call-site assertions"),
        "C14": (
            "No-panic sweep: for EVERY function under contract (all properties; the list is in the evidence) the generated safety obligations - nil dereference, index and slice bounds, division by zero, failed type assertion, "
            "make() size, nil-map write, negative shift - are discharged for all inputs satisfying the function's precondition, and every caller under contract establishes that precondition. Resource balance: every function "
            "that takes diskCache.mu releases it on every return path; Put/get return every reserved byte and remove or adopt every temp file on every path; validate.ActionResult rejects nil elements before they are dereferenced "
            "(the obligations that exposed the header-validation and short-first-chunk panics fixed in /repo)."
            " File ownership of the casblob readers: on every return path the file is either closed exactly once or owned by the returned reader (exposed an unclosed file on a seek error, fixed); GetTree's recursion tolerates stored Directory "
            "blobs with missing digests (exposed a nil dereference, fixed).",
            TRUST + "Covers the functions under contract only (listed in the evidence: disk layer, casblob, validators, tempfile, sha256verifier, config validation, auth interceptors, and the gRPC/HTTP handlers named in the other claims); functions marked nosafety "
            "(httpCache.CacheHandler and main.run only) are excluded from the sweep; goroutine and connection lifetimes and termination are NOT decided.",
            "contract-based deductive verification: automatically generated safety obligations for every instruction of every function under contract"),
        "C13": (
            "Deductive proof that the request handler behind each authentication layer is invoked only after the layer's check: gRPC basic-auth interceptors (unary and stream) call the handler only for the health method, for one of "
            "the six read-only methods when unauthenticated reads are allowed (the key set of readOnlyMethods is fixed by the package initialiser and never updated - checked on the SSA), or with a non-empty user and password whose "
            "htpasswd entry exists and matches (allowed() is exact); the mTLS interceptors call it only after checkGRPCClientCert returned nil in the same invocation, which implies a non-empty verified chain; HTTP hasValidClientCert "
            "accepts only a non-empty verified chain and VerifyClientCertHandler's function literal forwards only after it; unauthenticatedReadWrapper's function literal forwards without credentials only GET and HEAD; and startHttpServer "
            "registers for /status, /metrics and / handlers that carry the authentication wrapper in every configuration with authentication configured (all combinations of htpasswd / LDAP / client CA / allow_unauthenticated_reads / "
            "idle timeout / endpoint metrics), and hands the client-certificate flags to the cache handler exactly as configured - the obligation that exposed the unauthenticated /status fixed in /repo."
            " Inside httpCache.CacheHandler every cache read happens only after a successful client-certificate check when checkClientCertForReads is set, and every Put only after one when checkClientCertForWrites is set.",
            TRUST + "ASSUMED: go-http-auth (JustCheck, CheckAuth, CheckSecret, htpasswd parsing), the grpc peer / TLS state, that the metrics middleware and the listed forwarding closures forward to the handler they wrap "
            "(authWrapped is an uninterpreted predicate on function values). NOT under contract: startGrpcServer's choice of interceptors, LDAP; the no-panic obligations of CacheHandler are assumed (nosafety).",
            "contract-based deductive verification: call-site assertions at every invocation of a wrapped handler, ghost check counters, function-value identities with uninterpreted wrapper predicates, SSA check of a constant map"),
        "C15": (
            "Deductive proof of the key-space plumbing that is under contract: cache.TransformActionCacheKey returns the key unchanged for an empty instance name and otherwise the hex SHA-256 of key bytes followed by instance bytes "
            "(abstract byte streams; distinct inputs giving distinct outputs is collision resistance, not proved); grpcServer.UpdateActionResult stores under exactly that key when mangling is on and under the plain hash when it is off, "
            "in key space AC; FileLocationBase/FileLocation and the index key put the key space into every file name and index key (kind-prefixed lookup keys, ac.v2/cas.v2/raw.v2 directories); diskCache.get serves a zstd read only from the CAS."
            " grpcServer.GetActionResult looks up under the same key function; httpCache.CacheHandler parses r.URL.Path (pinned regular expression), mangles only AC/RAW keys and only with mangling on, passes the parsed key space and the (mangled) "
            "hash unchanged to every cache call, serves zstd only from the CAS and sends validated-AC requests only to the validated path; parseRequestURL maps ac/ to the validated or the raw key space according to validate_ac only.",
            TRUST + "Both front ends are proved to use TransformActionCacheKey with (hash, instance) as parsed; that HTTP path prefix and gRPC instance_name parse to the same instance string is not decided.",
            "contract-based deductive verification: functional postcondition over abstract byte streams, call-site assertions on the key passed to the cache"),
        "C16": (
            "Deductive proof of the obligations that are local to one function of the ByteStream upload path: parseWriteResource / parseReadResource return, on success, a non-negative size, a well-formed hash (64 characters, or the empty-blob "
            "hash for size 0) and the compression named in the resource (and cannot panic on any resource name); in the receive loop of Write (a function literal) the resource name is parsed from the first message only, the existence probe is made "
            "in the first iteration with exactly the parsed CAS digest, the 'non-zero write_offset' refusal is issued only after that probe answered 'absent', and payload is piped on only after both; the writer goroutine hands exactly the parsed "
            "digest and size to the cache in key space CAS; QueryWriteStatus makes one probe with the parsed digest and reports complete exactly when it is found, with the full size, and 0 / incomplete otherwise.",
            TRUST + "NOT decided: everything that depends on what travels over the channels between the two goroutines and the handler (committed_size of a successful Write, early return when the blob exists, failure on a changed resource name or "
            "wrong byte count reaching the client, 'stores nothing' on failure) - channel contents and goroutine interleavings are not modelled.",
            "contract-based deductive verification: call-site assertions inside the function literals, ghost probe counter, functional postconditions of the parsers"),
        "C19": (
            "Deductive proof of the refusal half of the property for the effective configuration: whenever config.validateConfig returns nil, the set-ups the property lists are absent - dir set and max_size > 0, storage mode and zstd "
            "implementation from the allowed sets, at most one proxy backend (counted over all five), http_address and (when enabled) grpc_address either a unix:// path that is not empty or accepted by net.SplitHostPort, HTTP and gRPC TCP "
            "ports different, TLS certificate and key given together, client CA only with certificate and key, allow_unauthenticated_reads only with an authentication mechanism, both blob limits positive, the remote asset API only with "
            "gRPC enabled, log settings from the allowed sets - for every Config value (858 obligations over all return paths).",
            TRUST + "net.SplitHostPort is uninterpreted (splitPort / splitOK); the values urfave/cli reports for a flag name are uninterpreted (flagStr, flagInt, flagInt64, flagBool, flagDur), as are net.JoinHostPort and strconv.Itoa. "
            "NOT decided: the YAML side of 'flags, environment and YAML agree' (yaml.v3 unmarshalling by struct tags and the post-processing in newFromYaml are not under contract, so agreement is shown only as far as "
            "'the flag named like the YAML key reaches the Config field tagged with that key'), how urfave/cli maps argv and environment variables to flag values, flag defaults (utils/flags), and that main() refuses to start when Get returns an error.",
            "contract-based deductive verification: postconditions of the validator written from the property's list of refused set-ups"),
        "C20": (
            "Deductive proof that what this build writes and reads is the published v2 layout: header.write emits exactly seven little-endian fields in the published order and widths (magic 0x184D2A50 as uint32, frame size "
            "uint32 = 21 + 8*len(offsets), logical size int64, compression uint8, chunk size uint32, offset count int64, offsets []int64) - call-site obligations on the dynamic type and value of every binary.Write argument; "
            "header.size() = 29 + 8*len(offsets); WriteAndClose builds the header with the declared size, 1 MiB chunks and ceil(size/1MiB)+1 offsets and rewrites the table at byte 29; readHeader accepts exactly the well-formed headers "
            "and the readers use the header's own chunk size; FileLocationBase/FileLocation produce the published names for all kinds (uninterpreted path/format functions pin format string, order and pieces)."
            " The file-name pattern accepted by the loader, the two-hex-digit directory patterns, the hash pattern and the HTTP resource pattern are pinned literally (SSA check); s3 / azblob object keys (v1 and v2, with and without prefix) and the "
            "HTTP backend's request URLs are proved equal to the published forms; EntryKind.String/DirName are exact.",
            TRUST + "NOT under contract: what the loader does with a matched file name, grpc proxy resource names, byte-level zstd framing.",
            "contract-based deductive verification: call-site assertions on serialisation calls, functional postconditions on naming functions"),
    }


na_reasons = {
    "C09": "every sentence of the property is about file-system histories across a restart (which files exist before and after loadExistingFiles / the layout migrations, their access times and order of eviction); "
           "the contract engine has no model of directory contents, and contracts over os.Rename/Remove/ReadDir would be an assumed file-system model rather than facts about the code; the only per-function piece "
           "(file-name regexp in load.go against FileLocation) needs regular-expression reasoning that the SMT encoding does not have. See DESIGN.md 10.6.",
}

# sentences appended to the claim texts (functions that came under contract later)
addenda = {
    "C01": "Added: grpcServer.SpliceBlob stores the spliced blob in the CAS under the request's (given or computed) digest whose size equals the sum of the chunk sizes, reading each chunk under its own digest; "
           "maybeInline stores de-inlined bytes under the digest stated next to them.",
    "C02": "Added: BatchReadBlobs / getBlobResponse look every digest up with its own hash and size from offset 0 (zstd only if the client accepts it), report a blob found with another size as NOT_FOUND, and attach data only to a response "
           "without an error status; maybeInline fetches inlined bytes under exactly the stated digest.",
    "C03": "Added: the /status page is built from a single Stats() call and reports its four values in the fields named for them (call-site obligation on the encoded struct).",
    "C06": "Added: gRPC GetActionResult with dependency checking answers only from GetValidatedActionResult (a nil result becomes an error, inlining runs only on hits); HTTP GET/HEAD of a validated /ac/ entry answer 200 only "
           "when GetValidatedActionResult returned data.",
    "C10": "Added: the gRPC FindMissingBlobs handler passes the request's digest list, whole and unchanged, to the cache after checking that no element is nil or malformed (loop invariant), and returns exactly the slice the cache reports; "
           "in findMissingCasBlobsInternal every iteration over a non-nil digest whose size is within max_proxy_blob_size performs exactly one hand-over to a backend worker (per-iteration step clause over the channel-send counter).",
    "C11": "Added: gRPC UpdateActionResult stores, in key space AC and under the (mangled) action digest, only a message for which validate.ActionResult returned nil (validAR holds at the Put), and returns that message; "
           "the HTTP handler validates the parsed message before it re-marshals and stores it; the hash pattern behind hex64 is pinned.",
    "C12": "Added: the HTTP backend's Put either hands the reader to an uploader (exactly one channel send containing it) or closes it (exactly one Close) - a full upload queue leaks nothing.",
    "C13": "Added: startGrpcServer puts the mTLS interceptors (built with the configured allow_unauthenticated_reads) into both interceptor chains whenever a client CA is configured, and the basic-auth interceptors of a GrpcBasicAuth "
           "built from the htpasswd secrets and the same option whenever an htpasswd file is configured.",
    "C18": "Added: GetCapabilities advertises exactly the configured limit; SpliceBlob refuses sizes above it before anything is stored; the HTTP handler refuses CAS/raw uploads above it; startGrpcServer hands the configured max_blob_size to the gRPC server; main.run passes max_blob_size and max_proxy_blob_size, unswapped, to disk.WithMaxBlobSize / WithProxyMaxBlobSize, whose function literals install exactly "
           "the given positive value and refuse others.",
    "C19": "Added: the disk options refuse non-positive blob limits and storage modes other than the two published ones, and main.run hands dir, storage mode and zstd implementation to the cache as configured. "
           "Added (flag front end): config.get passes to every one of the 35 parameters of newFromArgs the urfave/cli value of the flag named like the corresponding YAML key (call-site obligations; http_address / grpc_address / profile_address "
           "fall back to the deprecated host+port forms exactly when empty, grpc and profiling stay off for non-positive ports, 'none' disables profiling; the s3, gcs, azblob, ldap, http_proxy and grpc_proxy sections are built exactly when "
           "their key flag is non-empty and their fields come from the flags of their names), and newFromArgs stores every parameter in the Config field of its name, calls validateConfig on that struct and returns no Config on error.",
}
