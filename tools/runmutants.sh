#!/bin/bash
# Apply each selftest mutant to /repo, run govc, revert. Prints which obligations fail.
# usage: runmutants.sh [pattern] [govc args...]
pat=${1:-}; shift
cd /repo || exit 2
git diff --quiet || { echo "/repo has uncommitted changes"; exit 2; }
for p in /verif/selftest/mutants/*${pat}*.patch; do
  n=$(basename $p .patch)
  if ! git apply $p 2>/dev/null; then echo "== $n: PATCH DOES NOT APPLY"; continue; fi
  if ! (GOFLAGS=-mod=mod GOPROXY=off go build ./... >/dev/null 2>&1); then echo "== $n: DOES NOT COMPILE"; git checkout -- .; continue; fi
  out=$(/verif/bin/govc check "$@" 2>&1)
  rc=$?
  git checkout -- .
  echo "== $n: exit=$rc $(echo "$out" | tail -1)"
  echo "$out" | grep '^FAIL' | cut -c1-200 | head -6
done
