#!/bin/bash
# mutscratch.sh <patch> [prop]: apply a mutant to a scratch copy of /repo, run the quick check of its property there, remove the copy.
p=$1; n=$(basename $p .patch); [ "$n" = patch.diff ] && n=$(basename $(dirname $p))
prop=${2:-${n%%-*}}
export GOFLAGS=-mod=mod GOPROXY=off
tmp=$(mktemp -d /tmp/govc-mut-XXXXXX)
rsync -a --exclude .git /repo/ $tmp/
if ! (cd $tmp && patch -p1 -s < $p >/dev/null 2>&1); then echo "== $n: PATCH DOES NOT APPLY"; rm -rf $tmp; exit 2; fi
out=$(/verif/bin/govc check -repo $tmp -prop $prop -replaydir $tmp/replay -evidence "" 2>&1)
nv=$(echo "$out" | grep -c '^VIOLATION')
echo "== $n prop=$prop violations=$nv $(echo "$out" | tail -1 | sed 's/.*obligations=/obligations=/')"
echo "$out" | grep '^VIOLATION' | sed 's/.*obligation=//' | head -4
rm -rf $tmp
