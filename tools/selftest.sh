#!/bin/bash
# Must-fail corpus: apply each mutant of property $1 to a scratch copy of /repo and require a VIOLATION.
id=$1
export GOFLAGS=-mod=mod GOPROXY=off
shopt -s nullglob
fail=0
for p in /verif/selftest/mutants/${id}-*.patch /verif/seeded/*/patch.diff; do
  if [[ $p == /verif/seeded/* ]]; then
    meta=$(dirname $p)/meta.json
    [ -f "$meta" ] || continue
    [ "$(jq -r .property $meta)" = "$id" ] || continue
    [ "$(jq -r '.detected // true' $meta)" = "true" ] || continue
  fi
  tmp=$(mktemp -d /tmp/govc-mut-XXXXXX)
  rsync -a --exclude .git /repo/ $tmp/
  if ! (cd $tmp && patch -p1 -s < $p >/dev/null 2>&1); then echo "selftest: $p does not apply to the current tree (skipped)"; rm -rf $tmp; continue; fi
  out=$(/verif/bin/govc check -repo $tmp -prop $id -replaydir $tmp/replay -evidence "" 2>&1)
  if echo "$out" | grep -q '^VIOLATION'; then echo "selftest: $(basename $(dirname $p))/$(basename $p) detected"; else echo "selftest: MISSED mutant $p"; fail=1; fi
  rm -rf $tmp
done
exit $fail
