#!/bin/bash
# mkmutant.sh <name> <file> <old> <new> : create /verif/selftest/mutants/<name>.patch replacing the first occurrence of old by new
name=$1; f=$2; old=$3; new=$4
cd /repo || exit 2
git diff --quiet || { echo "/repo dirty"; exit 2; }
python3 - "$f" "$old" "$new" <<'PY'
import sys
f,old,new=sys.argv[1],sys.argv[2],sys.argv[3]
s=open(f).read()
if s.count(old)<1: sys.exit("pattern not found: "+old)
open(f,'w').write(s.replace(old,new,1))
PY
[ $? -eq 0 ] || { git checkout -- .; exit 1; }
git diff > /verif/selftest/mutants/$name.patch
git checkout -- .
echo "created $name"
