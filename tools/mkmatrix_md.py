#!/usr/bin/env python3
"""Turns seeded/detections.tsv (+ seeded/*/agent_meta.json) into the markdown tables of DESIGN.md 10.5."""
import json, re, os, glob
rows = {}
for l in open('/verif/seeded/detections.tsv'):
    m = re.match(r'(\S+) prop=(\S+) violations=(\d+) (.*)', l.strip())
    if m:
        rows[m.group(1)] = (m.group(2), int(m.group(3)), m.group(4))
def first_obl(detail):
    m = re.search(r'known=\d+ wall=\S+\s+(\S+)', detail)
    return m.group(1) if m else ''
print('| seeded change (independent sub-agent) | property | caught | obligation that fails (first reported) |')
print('|---|---|---|---|')
for d in sorted(glob.glob('/verif/seeded/*/')):
    sid = os.path.basename(d.rstrip('/'))
    am = os.path.join(d, 'agent_meta.json')
    if not os.path.exists(am):
        continue
    a = json.load(open(am))
    prop, nv, detail = rows.get(sid, ('?', 0, ''))
    obl = first_obl(detail)
    caught = 'yes' if nv > 0 and 'engine/generation' not in detail else 'NO'
    title = (a.get('title') or '').replace('|', '/')
    print('| %s: %s | %s | %s | `%s` |' % (sid, title[:150], prop, caught, obl if caught == 'yes' else '-'))
n = m = 0
missed = []
for k, (prop, nv, detail) in rows.items():
    if os.path.isdir('/verif/seeded/' + k):
        continue
    n += 1
    if nv > 0 and 'engine/generation' not in detail:
        m += 1
    else:
        missed.append(k)
print()
print('Must-fail corpus (`selftest/mutants`, written by me): %d of %d detected; missed: %s' % (m, n, ', '.join(sorted(missed)) or 'none'))
