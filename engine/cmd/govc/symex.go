package main

// Guarded forward symbolic execution over the go/ssa control-flow graph.

import (
	"fmt"
	"go/token"
	"go/types"
	"sort"
	"strings"

	"golang.org/x/tools/go/ssa"
)

type blockOut struct {
	st     *State
	guard  Term
	guards []Term // per successor
}

type exitInfo struct {
	guard   Term
	st      *State
	results []Val
	instr   *ssa.Return
	ord     int
}

type deferSite struct {
	id    int
	instr *ssa.Defer
	order int
}

type loopInfo struct {
	header   *ssa.BasicBlock
	ord      int
	body     map[*ssa.BasicBlock]bool
	variant0 Term
	hasVar   bool
	phiSave  map[*ssa.Phi]Val
	allowed  map[string][]location
	headSt   *State
}

type Frame struct {
	vc      *VC
	fn      *ssa.Function
	env     map[ssa.Value]Val
	depth   int
	top     bool
	con     *Contract
	out     map[*ssa.BasicBlock]*blockOut
	exits   []exitInfo
	defers  []*deferSite
	deferBy map[*ssa.Defer]*deferSite
	loops   map[*ssa.BasicBlock]*loopInfo
	order   []*ssa.BasicBlock
	rpoIdx  map[*ssa.BasicBlock]int
	shared  map[ssa.Value]bool
	callOrd map[ssa.Instruction]string // call instr -> "callee#k"
	retOrd  map[*ssa.Return]int
	entrySt *State
	binds   []Val
	params  []Val
	dbg     map[string][]*ssa.DebugRef
	active  map[*ssa.BasicBlock]bool // loop headers whose discovery pass is running
	parent  *Frame
	preSt   *State
	rangeOf map[*ssa.Range]ssa.Value
	deferArgs map[*ssa.Defer][]Val
	parked  []parkedReturn
}

func isBackEdge(from, to *ssa.BasicBlock) bool { return to.Dominates(from) }

func newFrame(vc *VC, fn *ssa.Function, parent *Frame) *Frame {
	f := &Frame{vc: vc, fn: fn, env: map[ssa.Value]Val{}, out: map[*ssa.BasicBlock]*blockOut{}, deferBy: map[*ssa.Defer]*deferSite{},
		loops: map[*ssa.BasicBlock]*loopInfo{}, rpoIdx: map[*ssa.BasicBlock]int{}, shared: map[ssa.Value]bool{},
		callOrd: map[ssa.Instruction]string{}, retOrd: map[*ssa.Return]int{}, dbg: map[string][]*ssa.DebugRef{}, active: map[*ssa.BasicBlock]bool{}, parent: parent}
	if parent != nil {
		f.depth = parent.depth + 1
	}
	f.computeOrder()
	f.computeLoops()
	f.computeOrdinals()
	return f
}

func (f *Frame) computeOrder() {
	if len(f.fn.Blocks) == 0 {
		return
	}
	seen := map[*ssa.BasicBlock]bool{}
	var post []*ssa.BasicBlock
	var dfs func(b *ssa.BasicBlock)
	dfs = func(b *ssa.BasicBlock) {
		seen[b] = true
		for _, s := range b.Succs {
			if !seen[s] && !isBackEdge(b, s) {
				dfs(s)
			}
		}
		post = append(post, b)
	}
	dfs(f.fn.Blocks[0])
	// blocks only reachable through back edges cannot exist in reducible graphs
	for i := len(post) - 1; i >= 0; i-- {
		f.rpoIdx[post[i]] = len(f.order)
		f.order = append(f.order, post[i])
	}
}

func blockPos(b *ssa.BasicBlock) token.Pos {
	for _, in := range b.Instrs {
		if p := in.Pos(); p.IsValid() {
			return p
		}
	}
	return token.NoPos
}

func (f *Frame) computeLoops() {
	var headers []*ssa.BasicBlock
	for _, b := range f.fn.Blocks {
		for _, s := range b.Succs {
			if isBackEdge(b, s) {
				li := f.loops[s]
				if li == nil {
					li = &loopInfo{header: s, body: map[*ssa.BasicBlock]bool{s: true}}
					f.loops[s] = li
					headers = append(headers, s)
				}
				// natural loop of back edge b->s
				var stack []*ssa.BasicBlock
				if !li.body[b] {
					li.body[b] = true
					stack = append(stack, b)
				}
				for len(stack) > 0 {
					x := stack[len(stack)-1]
					stack = stack[:len(stack)-1]
					for _, p := range x.Preds {
						if !li.body[p] {
							li.body[p] = true
							stack = append(stack, p)
						}
					}
				}
			}
		}
	}
	// ordinal by source position of the loop (smallest position of any instruction of the
	// header, falling back on block index)
	sort.SliceStable(headers, func(i, j int) bool {
		pi, pj := loopPos(f.loops[headers[i]]), loopPos(f.loops[headers[j]])
		if pi != pj {
			return pi < pj
		}
		return headers[i].Index < headers[j].Index
	})
	for i, h := range headers {
		f.loops[h].ord = i
	}
}

func loopPos(li *loopInfo) token.Pos {
	best := token.NoPos
	for b := range li.body {
		for _, in := range b.Instrs {
			if p := in.Pos(); p.IsValid() && (best == token.NoPos || p < best) {
				best = p
			}
		}
	}
	return best
}

func calleeShortName(c *ssa.CallCommon) string {
	if c.IsInvoke() {
		return c.Method.Name()
	}
	switch v := c.Value.(type) {
	case *ssa.Function:
		return v.Name()
	case *ssa.Builtin:
		return v.Name()
	case *ssa.MakeClosure:
		return v.Fn.(*ssa.Function).Name()
	case *ssa.Parameter:
		return v.Name()
	case *ssa.FreeVar:
		return v.Name()
	case *ssa.UnOp:
		// a function value read from a variable: named after the variable
		switch x := v.X.(type) {
		case *ssa.FreeVar:
			return x.Name()
		case *ssa.Alloc:
			if x.Comment != "" {
				return x.Comment
			}
		}
	}
	return "dynamic"
}

func (f *Frame) computeOrdinals() {
	type ci struct {
		in  ssa.Instruction
		pos token.Pos
		idx int
		nm  string
	}
	var calls []ci
	var rets []*ssa.Return
	n := 0
	for _, b := range f.fn.Blocks {
		for _, in := range b.Instrs {
			n++
			switch x := in.(type) {
			case *ssa.Call:
				calls = append(calls, ci{in, x.Pos(), n, calleeShortName(&x.Call)})
			case *ssa.Defer:
				calls = append(calls, ci{in, x.Pos(), n, calleeShortName(&x.Call)})
				ds := &deferSite{id: len(f.defers), instr: x}
				f.defers = append(f.defers, ds)
				f.deferBy[x] = ds
			case *ssa.Go:
				calls = append(calls, ci{in, x.Pos(), n, calleeShortName(&x.Call)})
			case *ssa.Return:
				rets = append(rets, x)
			case *ssa.DebugRef:
				if id, ok := x.Expr.(interface{ String() string }); ok {
					_ = id
				}
			}
		}
	}
	sort.SliceStable(calls, func(i, j int) bool {
		if calls[i].pos != calls[j].pos {
			return calls[i].pos < calls[j].pos
		}
		return calls[i].idx < calls[j].idx
	})
	cnt := map[string]int{}
	for _, c := range calls {
		f.callOrd[c.in] = fmt.Sprintf("%s#%d", c.nm, cnt[c.nm])
		cnt[c.nm]++
	}
	sort.SliceStable(rets, func(i, j int) bool { return rets[i].Pos() < rets[j].Pos() })
	for i, r := range rets {
		f.retOrd[r] = i
	}
}

// lookupName resolves a source-level variable name at a program point: header
// phis of enclosing loops first, then parameters, then named locals (Alloc
// comments / phis with that comment that dominate the point).
func (f *Frame) lookupName(name string, at *ssa.BasicBlock, atI ssa.Instruction) (Val, bool) {
	if k := strings.Index(name, "$"); k > 0 {
		// x$N: the header phi named x of loop N (to refer to an enclosing loop's variable)
		var ord int
		if _, err := fmt.Sscanf(name[k+1:], "%d", &ord); err == nil {
			for _, li := range f.loops {
				if li.ord != ord {
					continue
				}
				if g, ok := f.vc.eng.ct.Ghosts[name[:k]]; ok && li.headSt != nil {
					// ghost$N: the ghost's value at the beginning of the current iteration of loop N
					return Val{K: KSpec, T: f.vc.heapGet(li.headSt, "G."+name[:k], g.Sort)}, true
				}
				for _, in := range li.header.Instrs {
					phi, ok := in.(*ssa.Phi)
					if !ok {
						break
					}
					if phi.Comment == name[:k] {
						if v, ok := f.env[phi]; ok {
							return v, true
						}
					}
				}
			}
		}
		return Val{}, false
	}
	for i, p := range f.fn.Params {
		if p.Name() == name && i < len(f.params) {
			return f.params[i], true
		}
	}
	for i, fv := range f.fn.FreeVars {
		if fv.Name() == name && i < len(f.binds) {
			// free variables are pointers to the captured variable
			b := f.binds[i]
			if pt, ok := fv.Type().Underlying().(*types.Pointer); ok && f.cur() != nil {
				return f.vc.load(f.cur(), b, pt.Elem()), true
			}
			return b, true
		}
	}
	if at == nil {
		return Val{}, false
	}
	// phis / allocs with this comment in dominating blocks; prefer the closest dominator
	var best ssa.Value
	bestIsCell := false
	bestDepth := -1
	var cellBest ssa.Value
	cellDepth := -1
	for _, b := range f.fn.Blocks {
		if !(b == at || b.Dominates(at)) {
			continue
		}
		d := domDepth(b)
		for _, in := range b.Instrs {
			if b == at && atI != nil && in == atI {
				break
			}
			var v ssa.Value
			isCell := false
			switch x := in.(type) {
			case *ssa.Phi:
				if x.Comment == name {
					v = x
				}
			case *ssa.Alloc:
				if x.Comment == name {
					v = x
					isCell = true // the variable's storage: its value has to be loaded
				}
			case *ssa.DebugRef:
				if x.Object() != nil && x.Object().Name() == name {
					v = x.X
					isCell = x.IsAddr
				}
			}
			if v != nil {
				_, bound := f.env[v]
				if _, isConst := v.(*ssa.Const); isConst {
					bound = true
				}
				if bound && isCell && d >= cellDepth {
					// the variable lives in memory: its storage wins over any value read from it earlier
					cellBest = v
					cellDepth = d
				}
				if bound && d >= bestDepth {
					best = v
					bestIsCell = isCell
					bestDepth = d
				}
			}
		}
	}
	if cellBest != nil {
		best = cellBest
		bestIsCell = true
	}
	if best == nil {
		return Val{}, false
	}
	val := f.val(best)
	if bestIsCell {
		st := f.cur()
		pt, ok := best.Type().Underlying().(*types.Pointer)
		if st == nil || !ok {
			return Val{}, false
		}
		return f.vc.load(st, val, pt.Elem()), true
	}
	return val, true
}

func domDepth(b *ssa.BasicBlock) int {
	d := 0
	for x := b.Idom(); x != nil; x = x.Idom() {
		d++
	}
	return d
}

// cur returns the state in which names are currently being resolved.
func (f *Frame) cur() *State { return f.entrySt }

// ---------------------------------------------------------------------------

type vcSnap struct {
	nAss, nObl, nNews, nRef int
	facts                   map[string]bool
	strlits                 map[string]Term
	written                 map[string]bool
	boxed                   map[string]Val
	unsupp                  int
}

func (vc *VC) snapshot() vcSnap {
	s := vcSnap{nAss: len(vc.assumes), nObl: len(vc.obls), nNews: len(vc.news), nRef: len(vc.refVals), unsupp: len(vc.unsupp),
		facts: make(map[string]bool, len(vc.facts)), strlits: make(map[string]Term, len(vc.strlits)), written: make(map[string]bool, len(vc.written)), boxed: make(map[string]Val, len(vc.boxed))}
	for k, v := range vc.facts {
		s.facts[k] = v
	}
	for k, v := range vc.strlits {
		s.strlits[k] = v
	}
	for k, v := range vc.written {
		s.written[k] = v
	}
	for k, v := range vc.boxed {
		s.boxed[k] = v
	}
	return s
}

func (vc *VC) restore(s vcSnap) {
	vc.assumes = vc.assumes[:s.nAss]
	vc.obls = vc.obls[:s.nObl]
	vc.news = vc.news[:s.nNews]
	vc.refVals = vc.refVals[:s.nRef]
	vc.facts = s.facts
	vc.strlits = s.strlits
	vc.written = s.written
	vc.boxed = s.boxed
}

type inEdge struct {
	pred  *ssa.BasicBlock
	pidx  int // index into b.Preds
	guard Term
	st    *State
}

func (f *Frame) inEdges(b *ssa.BasicBlock, wantBack bool) []inEdge {
	var es []inEdge
	for i, p := range b.Preds {
		if isBackEdge(p, b) != wantBack {
			continue
		}
		o := f.out[p]
		if o == nil {
			continue
		}
		g := False
		for si, s := range p.Succs {
			if s == b && si < len(o.guards) {
				// when both successors are b the phi edge index disambiguates; take matching occurrence
				g = Or(g, o.guards[si])
			}
		}
		if g.S == "false" {
			continue
		}
		es = append(es, inEdge{p, i, g, o.st})
	}
	return es
}

// mergeStates joins the states of several incoming edges.
func (vc *VC) mergeStates(es []inEdge) *State {
	if len(es) == 1 {
		return es[0].st.clone()
	}
	st := &State{H: map[string]Term{}, Armed: map[int]Term{}}
	keys := map[string]bool{}
	for _, e := range es {
		for k := range e.st.H {
			keys[k] = true
		}
	}
	for _, k := range sortedKeys(keys) {
		var ts []Term
		same := true
		for _, e := range es {
			t, ok := e.st.H[k]
			if !ok {
				t = vc.heapInit(k, vc.keySort[k])
			}
			if len(ts) > 0 && t.S != ts[0].S {
				same = false
			}
			ts = append(ts, t)
		}
		if same {
			st.H[k] = ts[0]
			continue
		}
		c := vc.freshConst(smtName(k), ts[0].Sort)
		for i, e := range es {
			vc.assumeRaw(Implies(e.guard, Eq(c, ts[i])))
		}
		st.H[k] = c
	}
	akeys := map[int]bool{}
	for _, e := range es {
		for k := range e.st.Armed {
			akeys[k] = true
		}
	}
	for k := range akeys {
		acc := False
		first := true
		for _, e := range es {
			t, ok := e.st.Armed[k]
			if !ok {
				t = False
			}
			if first {
				acc = t
				first = false
			} else {
				acc = Ite(e.guard, t, acc)
			}
		}
		st.Armed[k] = acc
	}
	return st
}

func (f *Frame) phiFromEdges(phi *ssa.Phi, es []inEdge) Val {
	var acc Val
	for i, e := range es {
		v := f.val(phi.Edges[e.pidx])
		if i == 0 {
			acc = v
		} else {
			acc = f.vc.iteVal(e.guard, v, acc)
		}
	}
	acc.Typ = phi.Type()
	return acc
}

// run executes the function body from the given state.
func (f *Frame) run(st *State, guard Term) {
	f.entrySt = st
	for _, b := range f.order {
		f.execBlock(b, st, guard, nil)
	}
	f.finishDefers()
}

type parkedReturn struct {
	b     *ssa.BasicBlock
	at    *ssa.RunDefers
	st    *State
	guard Term
}

// finishDefers runs the deferred calls once, on the merge of all paths that
// reached a `rundefers`, and then completes every parked return block.
func (f *Frame) finishDefers() {
	if len(f.parked) == 0 {
		return
	}
	vc := f.vc
	parked := f.parked
	f.parked = nil
	var es []inEdge
	gs := make([]Term, len(parked))
	for i, p := range parked {
		es = append(es, inEdge{guard: p.guard, st: p.st})
		gs[i] = p.guard
	}
	st := vc.mergeStates(es)
	var g Term
	if len(gs) == 1 {
		g = gs[0]
	} else {
		g = vc.freshBool("g.defers")
		vc.assumeRaw(Eq(g, Or(gs...)))
	}
	o := &blockOut{st: st, guard: g}
	f.runDefers(parked[0].b, parked[0].at, o)
	for _, p := range parked {
		// continue the block after its rundefers, in the state left by the deferred calls
		po := &blockOut{st: o.st.clone(), guard: And(p.guard, o.guard)}
		f.out[p.b] = po
		f.entrySt = po.st
		after := false
		for _, in := range p.b.Instrs {
			if in == ssa.Instruction(p.at) {
				after = true
				continue
			}
			if !after {
				continue
			}
			if done := f.execInstr(p.b, in, po); done {
				break
			}
		}
	}
}

// execBlock executes one block. restrict (if non-nil) limits execution to a
// loop body during the discovery pass.
func (f *Frame) execBlock(b *ssa.BasicBlock, entrySt *State, entryGuard Term, restrict map[*ssa.BasicBlock]bool) {
	vc := f.vc
	var st *State
	var guard Term
	li := f.loops[b]
	if b == f.fn.Blocks[0] {
		st = entrySt.clone()
		guard = entryGuard
	} else {
		es := f.inEdges(b, false)
		if restrict != nil {
			// discovery: only edges from inside the loop, except for the header which is seeded by caller
			var fes []inEdge
			for _, e := range es {
				if restrict[e.pred] {
					fes = append(fes, e)
				}
			}
			es = fes
		}
		if len(es) == 0 {
			delete(f.out, b)
			return
		}
		st = vc.mergeStates(es)
		gs := make([]Term, len(es))
		for i, e := range es {
			gs[i] = e.guard
		}
		if len(gs) == 1 {
			guard = gs[0]
		} else {
			guard = vc.freshBool("g")
			vc.assumeRaw(Eq(guard, Or(gs...)))
		}
		// phis
		for _, in := range b.Instrs {
			phi, ok := in.(*ssa.Phi)
			if !ok {
				break
			}
			f.env[phi] = f.phiFromEdges(phi, es)
		}
	}
	if li != nil && !f.active[b] {
		st = f.enterLoop(li, st, guard)
	}
	f.execInstrs(b, st, guard)
}

func (f *Frame) execInstrs(b *ssa.BasicBlock, st *State, guard Term) {
	f.entrySt = st
	o := &blockOut{st: st, guard: guard}
	f.out[b] = o
	for _, in := range b.Instrs {
		if _, isPhi := in.(*ssa.Phi); isPhi {
			continue
		}
		if done := f.execInstr(b, in, o); done {
			break
		}
	}
	if o.guards == nil {
		o.guards = make([]Term, len(b.Succs))
		for i := range o.guards {
			o.guards[i] = False
		}
	}
	// back edges leaving this block: check invariants
	for si, s := range b.Succs {
		if isBackEdge(b, s) && o.guards[si].S != "false" {
			if li := f.loops[s]; li != nil && !f.active[s] {
				f.checkBackEdge(li, b, si, o)
			}
		}
	}
}

// enterLoop handles arrival at a loop header: establish invariants, havoc,
// assume invariants.
func (f *Frame) enterLoop(li *loopInfo, st *State, guard Term) *State {
	vc := f.vc
	h := li.header
	if f.con != nil && f.con.LoopMod[li.ord] != nil {
		return f.enterLoopWithFrame(li, st, guard)
	}
	// 1. discovery pass: which heap keys does the body write?
	snap := vc.snapshot()
	vc.quiet++
	f.active[h] = true
	savedEnv := map[ssa.Value]Val{}
	for k, v := range f.env {
		savedEnv[k] = v
	}
	savedOut := map[*ssa.BasicBlock]*blockOut{}
	for k, v := range f.out {
		savedOut[k] = v
	}
	savedExits := len(f.exits)
	dst := st.clone()
	f.execInstrs(h, dst, guard)
	for _, b := range f.order {
		if b != h && li.body[b] {
			f.execBlock(b, nil, False, li.body)
		}
	}
	mod := map[string]bool{}
	for _, e := range f.inEdges(h, true) {
		for k, t := range e.st.H {
			o, ok := st.H[k]
			if !ok {
				o = Term{S: smtName(k) + "@0"}
			}
			if o.S != t.S {
				mod[k] = true
			}
		}
	}
	// also anything written at all inside the body (covers paths that exit the loop)
	for b := range li.body {
		if o := f.out[b]; o != nil {
			for k, t := range o.st.H {
				o2, ok := st.H[k]
				if !ok {
					o2 = Term{S: smtName(k) + "@0"}
				}
				if o2.S != t.S && vc.written[k] {
					mod[k] = true
				}
			}
		}
	}
	f.exits = f.exits[:savedExits]
	f.env = savedEnv
	f.out = savedOut
	delete(f.active, h)
	vc.quiet--
	vc.restore(snap)

	// 2. invariants on entry (phis currently hold their entry values)
	f.entrySt = st
	invs := f.loopInvariants(li)
	for i, cl := range invs {
		f.assertClause(cl, fmt.Sprintf("loop%d:invariant[%s]:entry", li.ord, clauseLabel(cl, i)), "invariant", st, guard, h, nil)
	}
	// 3. havoc
	nst := st.clone()
	for _, k := range sortedKeys(mod) {
		srt := vc.keySort[k]
		if t, ok := st.H[k]; ok {
			srt = t.Sort
		}
		if srt == "" {
			continue
		}
		nst.H[k] = vc.freshConst(smtName(k)+".loop", srt)
	}
	li.phiSave = map[*ssa.Phi]Val{}
	for _, in := range h.Instrs {
		phi, ok := in.(*ssa.Phi)
		if !ok {
			break
		}
		li.phiSave[phi] = f.env[phi]
		nv := vc.freshVal(phi.Type(), "phi."+phi.Comment)
		// keep statically known shapes (function values, interior pointer paths)
		old := f.env[phi]
		if old.K == KPtr && len(old.Path) == 1 && !old.Path[0].IsIdx {
			nv.Path = old.Path
		}
		f.env[phi] = nv
	}
	// 4. assume invariants
	f.entrySt = nst
	for _, cl := range invs {
		f.assumeClause(cl, nst, guard, h, nil)
	}
	if dec, ok := f.loopDecreases(li); ok {
		env := f.specEnv(nst, h, nil)
		if t, err := env.evalTerm(dec.Expr); err == nil {
			li.variant0 = vc.nameTerm(t, "variant")
			li.hasVar = true
		} else {
			vc.specError(dec, err)
		}
	}
	return nst
}

func (f *Frame) checkBackEdge(li *loopInfo, from *ssa.BasicBlock, succIdx int, o *blockOut) {
	vc := f.vc
	h := li.header
	g := o.guards[succIdx]
	// bind phis to the values flowing along this edge
	pidx := -1
	cnt := 0
	for i, p := range h.Preds {
		if p == from {
			if cnt == 0 || pidx < 0 {
				pidx = i
			}
			cnt++
		}
	}
	saved := map[*ssa.Phi]Val{}
	for _, in := range h.Instrs {
		phi, ok := in.(*ssa.Phi)
		if !ok {
			break
		}
		saved[phi] = f.env[phi]
	}
	newv := map[*ssa.Phi]Val{}
	for phi := range saved {
		newv[phi] = f.val(phi.Edges[pidx])
	}
	for phi, v := range newv {
		f.env[phi] = v
	}
	f.entrySt = o.st
	invs := f.loopInvariants(li)
	for i, cl := range invs {
		f.assertClause(cl, fmt.Sprintf("loop%d:invariant[%s]:preserved", li.ord, clauseLabel(cl, i)), "invariant", o.st, g, h, nil)
	}
	if f.con != nil {
		for i, cl := range f.con.LoopStep[li.ord] {
			f.assertClause(cl, fmt.Sprintf("loop%d:step[%s]", li.ord, clauseLabel(cl, i)), "invariant", o.st, g, h, nil)
		}
	}
	if li.headSt != nil {
		f.frameObls(o.st, li.headSt, li.allowed, fmt.Sprintf("@loop%d", li.ord), g, f.posString(blockPos(h)))
	}
	if dec, ok := f.loopDecreases(li); ok && li.hasVar {
		env := f.specEnv(o.st, h, nil)
		if t, err := env.evalTerm(dec.Expr); err == nil {
			vc.addObl(&Obligation{Name: fmt.Sprintf("loop%d:decreases", li.ord), Kind: "decreases", Tags: dec.Tags,
				Goal: And(Lt(t, li.variant0), Le(IntLit(0), li.variant0)), Guard: g, Src: "decreases " + dec.Src, Where: f.posString(blockPos(h))})
		} else {
			vc.specError(dec, err)
		}
	}
	for phi, v := range saved {
		f.env[phi] = v
	}
}

func clauseLabel(cl Clause, i int) string {
	if cl.Label != "" {
		return cl.Label
	}
	return fmt.Sprint(i)
}

func (f *Frame) loopInvariants(li *loopInfo) []Clause {
	var cs []Clause
	if f.con != nil {
		cs = append(cs, f.con.LoopInv[li.ord]...)
	}
	cs = append(cs, f.autoInvariants(li)...)
	return cs
}

func (f *Frame) loopDecreases(li *loopInfo) (Clause, bool) {
	if f.con == nil {
		return Clause{}, false
	}
	c, ok := f.con.LoopDec[li.ord]
	return c, ok
}

// autoInvariants recognises the go/ssa shape of `for i := range slice`:
//
//	header: p = phi [-1 (entry), n (latch)]; n = p + 1; if n < len goto body else done
//
// and yields -1 <= p < len, which holds by construction.
func (f *Frame) autoInvariants(li *loopInfo) []Clause {
	var cs []Clause
	h := li.header
	for _, in := range h.Instrs {
		phi, ok := in.(*ssa.Phi)
		if !ok {
			break
		}
		if kindOf(phi.Type()) != KInt {
			continue
		}
		// find the increment in the header
		var inc *ssa.BinOp
		for _, in2 := range h.Instrs {
			if bo, ok := in2.(*ssa.BinOp); ok && bo.Op == token.ADD && bo.X == phi {
				if c, ok := bo.Y.(*ssa.Const); ok && c.Int64() == 1 {
					inc = bo
				}
			}
		}
		if inc == nil {
			continue
		}
		ifi, ok := h.Instrs[len(h.Instrs)-1].(*ssa.If)
		if !ok {
			continue
		}
		cmp, ok := ifi.Cond.(*ssa.BinOp)
		if !ok || cmp.Op != token.LSS || cmp.X != inc {
			continue
		}
		// bound must be defined outside the loop
		if bi, ok := cmp.Y.(ssa.Instruction); ok && li.body[bi.Block()] {
			continue
		}
		allBack := true
		for i, p := range h.Preds {
			if isBackEdge(p, h) {
				if phi.Edges[i] != inc {
					allBack = false
				}
			} else {
				c, ok := phi.Edges[i].(*ssa.Const)
				if !ok || c.Int64() != -1 {
					allBack = false
				}
			}
		}
		if !allBack {
			continue
		}
		bound := cmp.Y
		phiV := phi
		cs = append(cs, Clause{Kind: "invariant", Label: "auto-range", Src: "-1 <= <range index> < <len>",
			Expr: autoExpr{func(fr *Frame) Term {
				p := fr.val(phiV).T
				n := fr.val(bound).T
				return And(Le(IntLit(-1), p), Lt(p, n))
			}}})
	}
	return cs
}

// autoExpr is a spec expression computed directly by the engine.
type autoExpr struct{ f func(fr *Frame) Term }

func (f *Frame) posString(p token.Pos) string {
	if !p.IsValid() {
		return ""
	}
	pos := f.vc.eng.prog.Fset.Position(p)
	return fmt.Sprintf("%s:%d", pos.Filename, pos.Line)
}

// enterLoopWithFrame handles a loop that carries an explicit `loop n modifies`
// clause: only the listed locations (and the header phis) are havocked, and
// every back edge must show that nothing else changed.
func (f *Frame) enterLoopWithFrame(li *loopInfo, st *State, guard Term) *State {
	vc := f.vc
	h := li.header
	f.entrySt = st
	invs := f.loopInvariants(li)
	for i, cl := range invs {
		f.assertClause(cl, fmt.Sprintf("loop%d:invariant[%s]:entry", li.ord, clauseLabel(cl, i)), "invariant", st, guard, h, nil)
	}
	nst := st.clone()
	env := f.specEnv(st, h, nil)
	li.allowed = map[string][]location{}
	for _, m := range f.con.LoopMod[li.ord] {
		func() {
			defer func() {
				if r := recover(); r != nil {
					if se, ok := r.(specErr); ok {
						vc.specError(Clause{File: f.con.File, Line: f.con.Line, Src: "loop modifies " + specString(m)}, fmt.Errorf("%s", se.msg))
						return
					}
					panic(r)
				}
			}()
			for _, l := range env.locations(m) {
				li.allowed[l.name] = append(li.allowed[l.name], l)
				vc.havoc(nst, l)
			}
		}()
	}
	// cells shared with other goroutines may change at any yield point inside the loop
	{
		keys := make([]string, 0, len(vc.sharedCells))
		for k := range vc.sharedCells {
			keys = append(keys, k)
		}
		sort.Strings(keys)
		for _, k := range keys {
			p := vc.sharedCells[k]
			for _, l := range vc.objectLocs(p, derefType(p.Typ)) {
				li.allowed[l.name] = append(li.allowed[l.name], l)
				vc.havoc(nst, l)
			}
		}
	}
	li.phiSave = map[*ssa.Phi]Val{}
	for _, in := range h.Instrs {
		phi, ok := in.(*ssa.Phi)
		if !ok {
			break
		}
		li.phiSave[phi] = f.env[phi]
		nv := vc.freshVal(phi.Type(), "phi."+phi.Comment)
		old := f.env[phi]
		if old.K == KPtr && len(old.Path) == 1 && !old.Path[0].IsIdx {
			nv.Path = old.Path
		}
		f.env[phi] = nv
	}
	// the frame of a generic iteration: the listed expressions evaluated with the loop
	// variables of that iteration (e.g. elems(s) of a slice that the loop re-allocates)
	{
		env2 := f.specEnv(nst, h, nil)
		for _, m := range f.con.LoopMod[li.ord] {
			func() {
				defer func() {
					if r := recover(); r != nil {
						if _, ok := r.(specErr); !ok {
							panic(r)
						}
					}
				}()
				for _, l := range env2.locations(m) {
					li.allowed[l.name] = append(li.allowed[l.name], l)
				}
			}()
		}
	}
	li.headSt = nst.clone()
	f.entrySt = nst
	for _, cl := range invs {
		f.assumeClause(cl, nst, guard, h, nil)
	}
	if dec, ok := f.loopDecreases(li); ok {
		env := f.specEnv(nst, h, nil)
		if t, err := env.evalTerm(dec.Expr); err == nil {
			li.variant0 = vc.nameTerm(t, "variant")
			li.hasVar = true
		} else {
			vc.specError(dec, err)
		}
	}
	return nst
}

// frameObls emits the obligations that cur differs from base only at the
// allowed locations (or at freshly allocated objects).
func (f *Frame) frameObls(cur, base *State, allowed map[string][]location, label string, guard Term, where string) {
	vc := f.vc
	for _, k := range sortedKeys(boolKeys(cur.H)) {
		c := cur.H[k]
		b, ok := base.H[k]
		if !ok {
			b = Term{smtName(k) + "@0", c.Sort}
		}
		if c.S == b.S || k == "G.alloc" || strings.HasPrefix(k, "L.") {
			continue
		}
		whole := false
		for _, l := range allowed[k] {
			if l.whole || len(l.idx) == 0 {
				whole = true
			}
		}
		if whole {
			continue
		}
		if !strings.HasPrefix(string(c.Sort), "(Array ") {
			vc.addObl(&Obligation{Name: fmt.Sprintf("frame[%s]%s", k, label), Kind: "frame", Goal: Eq(c, b), Guard: guard,
				Src: k + " is not in modifies, so it must be unchanged", Where: where})
			continue
		}
		i := vc.freshConst("frame.i", idxSort(c.Sort))
		var hyps []Term
		for _, l := range allowed[k] {
			hyps = append(hyps, Ne(i, l.idx[0]))
		}
		if idxSort(c.Sort) == SInt {
			// only objects that already existed in the base state are visible to the environment:
			// everything allocated since then (not in the base state's ghost set alloc) may differ
			hyps = append(hyps, vc.isAllocated(base, i))
		}
		vc.addObl(&Obligation{Name: fmt.Sprintf("frame[%s]%s", k, label), Kind: "frame", Goal: Eq(Select(c, i), Select(b, i)), Hyps: hyps, Guard: guard,
			Src: "only locations listed in modifies (or freshly allocated) may differ in " + k, Where: where})
	}
}
