package main

import (
	"flag"
	"fmt"
	"os"
)

func main() {
	if len(os.Args) < 2 {
		fmt.Fprintln(os.Stderr, "usage: govc <check|dump> ...")
		os.Exit(2)
	}
	switch os.Args[1] {
	case "check":
		os.Exit(cmdCheck(os.Args[2:]))
	default:
		fmt.Fprintln(os.Stderr, "unknown command", os.Args[1])
		os.Exit(2)
	}
}

var _ = flag.String
