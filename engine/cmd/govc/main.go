package main

import (
	"fmt"
	"golang.org/x/tools/go/packages"
	"golang.org/x/tools/go/ssa"
	"golang.org/x/tools/go/ssa/ssautil"
	"time"
)

func main() {
	t0 := time.Now()
	cfg := &packages.Config{Mode: packages.NeedName | packages.NeedFiles | packages.NeedCompiledGoFiles | packages.NeedImports | packages.NeedTypes | packages.NeedTypesSizes | packages.NeedSyntax | packages.NeedTypesInfo, Dir: "/repo", BuildFlags: []string{"-tags=verif"}}
	pkgs, err := packages.Load(cfg, "./...")
	if err != nil {
		panic(err)
	}
	prog, spkgs := ssautil.Packages(pkgs, ssa.InstantiateGenerics)
	prog.Build()
	fmt.Println(len(pkgs), len(spkgs), time.Since(t0))
}
