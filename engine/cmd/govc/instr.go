package main

import (
	"fmt"
	"go/constant"
	"go/token"
	"go/types"
	"sort"
	"strings"

	"golang.org/x/tools/go/ssa"
)

// val returns the symbolic value of an SSA value.
func (f *Frame) val(v ssa.Value) Val {
	if x, ok := f.env[v]; ok {
		return x
	}
	vc := f.vc
	switch c := v.(type) {
	case *ssa.Const:
		return f.constVal(c)
	case *ssa.Global:
		obj, _ := c.Object().(*types.Var)
		if obj == nil {
			return Val{K: KPtr, T: vc.freshInt("global"), Typ: c.Type()}
		}
		return vc.globalAddr(obj)
	case *ssa.Function:
		return Val{K: KFunc, Fn: c, Typ: c.Type(), T: IntLit(1)}
	case *ssa.Builtin:
		return Val{K: KFunc, Typ: c.Type(), T: IntLit(1)}
	case *ssa.FreeVar:
		for i, fv := range f.fn.FreeVars {
			if fv == c && i < len(f.binds) {
				return f.binds[i]
			}
		}
	case *ssa.Parameter:
		for i, p := range f.fn.Params {
			if p == c && i < len(f.params) {
				return f.params[i]
			}
		}
	}
	// value not yet defined (e.g. defined on an unreachable path): unconstrained
	nv := vc.freshVal(v.Type(), "undef."+v.Name())
	f.env[v] = nv
	return nv
}

func (f *Frame) constVal(c *ssa.Const) Val {
	vc := f.vc
	t := c.Type()
	if c.Value == nil {
		return vc.zeroVal(t)
	}
	switch kindOf(t) {
	case KInt:
		if c.Value.Kind() == constant.Int {
			return Val{K: KInt, T: BigLit(c.Value.ExactString()), Typ: t}
		}
		if i, ok := constant.Int64Val(constant.ToInt(c.Value)); ok {
			return Val{K: KInt, T: IntLit(i), Typ: t}
		}
	case KBool:
		if constant.BoolVal(c.Value) {
			return Val{K: KBool, T: True, Typ: t}
		}
		return Val{K: KBool, T: False, Typ: t}
	case KStr:
		return Val{K: KStr, T: vc.strLit(constant.StringVal(c.Value)), Typ: t}
	case KFloat:
		return Val{K: KFloat, T: vc.floatConst(c.Value.ExactString()), Typ: t}
	}
	return vc.freshVal(t, "const")
}

func (vc *VC) floatConst(s string) Term {
	name := smtName("flt." + s)
	return vc.decls.Const(name, SInt)
}

func (f *Frame) safety(kind string, in ssa.Instruction, goal Term, guard Term, what string) {
	if goal.S == "true" {
		return
	}
	if f.vc.noSafety {
		// assumed, not proved (see the nosafety flag of the contract)
		f.vc.assume(Implies(guard, goal), "nosafety: "+what)
		return
	}
	f.vc.safetyN[kind]++
	pos := f.posString(in.Pos())
	if pos == "" {
		pos = f.posString(blockPos(in.Block()))
	}
	name := fmt.Sprintf("safety:%s#%d", kind, f.vc.safetyN[kind]-1)
	if f.depth > 0 {
		name = fmt.Sprintf("safety:%s#%d@%s", kind, f.vc.safetyN[kind]-1, f.fn.Name())
	}
	f.vc.addObl(&Obligation{Name: name, Kind: "safety", Goal: goal, Guard: guard, Src: what, Where: pos})
}

func (f *Frame) nonNil(in ssa.Instruction, p Val, guard Term, what string) {
	if p.K == KPtr && len(p.Path) == 0 {
		f.safety("nil", in, Ne(p.T, IntLit(0)), guard, "nil dereference: "+what)
	}
}

// execInstr executes one instruction; returns true if the block ends here.
func (f *Frame) execInstr(b *ssa.BasicBlock, in ssa.Instruction, o *blockOut) bool {
	vc := f.vc
	st := o.st
	g := o.guard
	if f.depth == 0 {
		vc.curFrame, vc.curInstr, vc.curState = f, in, st
	}
	switch x := in.(type) {
	case *ssa.DebugRef:
		return false
	case *ssa.Alloc:
		et := x.Type().Underlying().(*types.Pointer).Elem()
		r := vc.newRef("new." + x.Comment)
		vc.markAlloc(st, r, et)
		p := Val{K: KPtr, T: r, Typ: x.Type()}
		if _, isStruct := structOf(et); isStruct && !x.Heap && !hasArrayField(et) && nonEscapingAlloc(x) {
			// a struct variable whose address never leaves this function: private storage,
			// cannot alias any heap object
			p.Local = "L." + f.fn.Name() + "." + x.Name()
		}
		if kindOf(et) == KArray {
			// array storage: elements zero-initialised lazily (unconstrained contents are a sound over-approximation for reads)
			f.env[x] = p
			return false
		}
		vc.store(st, p, et, vc.zeroVal(et))
		f.env[x] = p
	case *ssa.BinOp:
		f.env[x] = f.binop(x, g)
	case *ssa.UnOp:
		f.env[x] = f.unop(x, st, g)
	case *ssa.Phi:
		return false
	case *ssa.Store:
		p := f.val(x.Addr)
		f.nonNil(x, p, g, "store")
		et := x.Addr.Type().Underlying().(*types.Pointer).Elem()
		vc.store(st, p, et, f.val(x.Val))
	case *ssa.FieldAddr:
		p := f.val(x.X)
		f.nonNil(x, p, g, "field address ."+fieldName(x))
		pt := x.X.Type().Underlying().(*types.Pointer).Elem()
		s, _ := structOf(pt)
		if vc.eng.ct.Encapsulated[typeKey(pt)] && !isMethodOf(f.fn, pt) {
			k := typeKey(pt) + "." + s.Field(x.Field).Name() + "@" + f.fn.Name()
			if vc.encapsViol == nil {
				vc.encapsViol = map[string]bool{}
			}
			if !vc.encapsViol[k] && vc.quiet == 0 {
				vc.encapsViol[k] = true
				vc.addObl(&Obligation{Name: "encapsulation:" + shortFunc(typeKey(pt)) + "." + s.Field(x.Field).Name() + "@" + f.fn.Name(), Kind: "census", Goal: False, Guard: True,
					Src: "field " + s.Field(x.Field).Name() + " of the encapsulated type " + shortFunc(typeKey(pt)) + " is accessed outside its methods (state protected by the index invariant must only change through the contracted methods)",
					Where: f.posString(x.Pos())})
			}
		}
		r := vc.fieldAddr(p, s, typeKey(pt), x.Field)
		r.Typ = x.Type()
		f.env[x] = r
	case *ssa.Field:
		sv := f.val(x.X)
		if x.Field < len(sv.Fs) {
			f.env[x] = sv.Fs[x.Field]
		} else {
			f.env[x] = vc.freshVal(x.Type(), "field")
		}
	case *ssa.IndexAddr:
		f.env[x] = f.indexAddr(x, g)
	case *ssa.Index:
		// string or array value indexing
		base := f.val(x.X)
		idx := f.val(x.Index)
		if base.K == KStr {
			f.safety("index", x, And(Le(IntLit(0), idx.T), Lt(idx.T, vc.strLen(base.T))), g, "string index in range")
			vc.decls.Fun("gstr.at", []Sort{SStr, SInt}, SInt)
			t := App(SInt, "gstr.at", base.T, idx.T)
			vc.assumeRaw(And(Le(IntLit(0), t), Le(t, IntLit(255))))
			f.env[x] = Val{K: KInt, T: t, Typ: x.Type()}
		} else {
			f.env[x] = vc.freshVal(x.Type(), "arrayindex")
		}
	case *ssa.Slice:
		f.env[x] = f.sliceOp(x, st, g)
	case *ssa.MakeSlice:
		ln := f.val(x.Len)
		cp := f.val(x.Cap)
		et := x.Type().Underlying().(*types.Slice).Elem()
		esz := types.SizesFor("gc", "amd64").Sizeof(et)
		if esz < 1 {
			esz = 1
		}
		f.safety("makeslice", x, And(Le(IntLit(0), ln.T), Le(ln.T, cp.T), Le(Mul(cp.T, IntLit(esz)), BigLit("281474976710656"))), g, "make([]T, len, cap): 0 <= len <= cap and cap*sizeof(T) <= 2^48 = maxAlloc (runtime panics otherwise)")
		arr := vc.newRef("mkslice")
		vc.markAlloc(st, arr, nil)
		vc.zeroElems(st, arr, et)
		f.env[x] = Val{K: KSlice, T: arr, Off: IntLit(0), Len: ln.T, Cap: cp.T, Typ: x.Type()}
	case *ssa.MakeMap:
		r := vc.newRef("mkmap")
		vc.markAlloc(st, r, nil)
		m := Val{K: KMap, T: r, Typ: x.Type()}
		mt := x.Type().Underlying().(*types.Map)
		dn := vc.mapDomArrName(x.Type())
		ks := mapKeySort(mt)
		dom := vc.heapGet(st, dn, ArrSort(SInt, ArrSort(ks, SBool)))
		empty := Term{"((as const " + string(ArrSort(ks, SBool)) + ") false)", ArrSort(ks, SBool)}
		vc.heapSet(st, dn, vc.nameTerm(Store(dom, r, empty), smtName(dn)))
		f.env[x] = m
	case *ssa.MakeChan:
		f.env[x] = Val{K: KChan, T: vc.newRef("mkchan"), Typ: x.Type()}
	case *ssa.MakeInterface:
		v := f.val(x.X)
		f.env[x] = Val{K: KIface, Tag: vc.typeTag(x.X.Type()), T: vc.box(v), Typ: x.Type()}
	case *ssa.MakeClosure:
		fv := Val{K: KFunc, Fn: x.Fn, Typ: x.Type()}
		for _, bnd := range x.Bindings {
			fv.Binds = append(fv.Binds, f.val(bnd))
		}
		if fn, ok := x.Fn.(*ssa.Function); ok && strings.HasSuffix(fn.Name(), "$bound") && len(fv.Binds) == 1 && fv.Binds[0].T.S != "" {
			// method value: its identity is a function of the method and the receiver
			name := boundFnName(strings.TrimSuffix(fn.String(), "$bound"))
			vc.decls.Fun(name, []Sort{SInt}, SInt)
			fv.T = App(SInt, name, fv.Binds[0].T)
		} else {
			// every evaluation of a function literal yields a function value of its own
			fv.T = vc.newRef("closure")
		}
		if fn, ok := x.Fn.(*ssa.Function); ok {
			if con := vc.eng.ct.ByKey[fn.String()]; con != nil && len(con.SelfEns) > 0 {
				// trusted facts about the function value (`self`), stated over the captured variables
				env := f.specEnv(st, x.Block(), x)
				env.vars["self"] = Val{K: KInt, T: fv.T}
				for i, fvv := range fn.FreeVars {
					if i < len(fv.Binds) {
						b := fv.Binds[i]
						if pt, ok := fvv.Type().Underlying().(*types.Pointer); ok && b.K == KPtr {
							env.vars[fvv.Name()] = vc.load(st, b, pt.Elem())
						} else {
							env.vars[fvv.Name()] = b
						}
					}
				}
				for _, cl := range con.SelfEns {
					t, err := env.evalBool(cl.Expr)
					if err != nil {
						vc.specError(cl, err)
						continue
					}
					vc.assume(Implies(g, t), "function literal "+fn.Name()+": "+cl.Src)
					vc.trustNotes = append(vc.trustNotes, fmt.Sprintf("assumed about the function literal %s: %s", fn.Name(), cl.Src))
				}
			}
		}
		f.env[x] = fv
		if closureEscapes(x) {
			// the closure is more than a direct callee / deferred call: whoever gets hold
			// of it may run it at any time, so the cells it captures are shared from here on
			vc.markShared(fv)
		}
	case *ssa.ChangeType:
		v := f.val(x.X)
		v.Typ = x.Type()
		f.env[x] = v
	case *ssa.ChangeInterface:
		v := f.val(x.X)
		v.Typ = x.Type()
		f.env[x] = v
	case *ssa.Convert:
		f.env[x] = f.convert(x, st)
	case *ssa.MultiConvert:
		f.env[x] = vc.freshVal(x.Type(), "multiconvert")
	case *ssa.SliceToArrayPointer:
		f.env[x] = vc.freshVal(x.Type(), "s2ap")
	case *ssa.TypeAssert:
		f.env[x] = f.typeAssert(x, g)
	case *ssa.Extract:
		t := f.val(x.Tuple)
		if x.Index < len(t.Fs) {
			v := t.Fs[x.Index]
			f.env[x] = v
		} else {
			f.env[x] = vc.freshVal(x.Type(), "extract")
		}
	case *ssa.Lookup:
		m := f.val(x.X)
		k := f.val(x.Index)
		if m.K == KStr {
			f.safety("index", x, And(Le(IntLit(0), k.T), Lt(k.T, vc.strLen(m.T))), g, "string index in range")
			vc.decls.Fun("gstr.at", []Sort{SStr, SInt}, SInt)
			t := App(SInt, "gstr.at", m.T, k.T)
			vc.assumeRaw(And(Le(IntLit(0), t), Le(t, IntLit(255))))
			f.env[x] = Val{K: KInt, T: t, Typ: x.Type()}
			return false
		}
		mt := x.X.Type().Underlying().(*types.Map)
		ok, v := vc.mapGet(st, m, k, mt)
		if x.CommaOk {
			f.env[x] = Val{K: KTuple, Fs: []Val{v, {K: KBool, T: ok, Typ: types.Typ[types.Bool]}}, Typ: x.Type()}
		} else {
			f.env[x] = v
		}
	case *ssa.MapUpdate:
		m := f.val(x.Map)
		f.safety("nilmap", x, Ne(m.T, IntLit(0)), g, "assignment to entry in nil map")
		vc.mapSet(st, m, f.val(x.Key), f.val(x.Value), x.Map.Type().Underlying().(*types.Map))
	case *ssa.Range:
		f.env[x] = Val{K: KSpec, T: vc.freshInt("rangeiter"), Typ: x.Type()}
		f.rangeOf[x] = x.X
	case *ssa.Next:
		f.env[x] = f.next(x, st)
	case *ssa.Send:
		// channel contents are not modelled; what is sent escapes to other goroutines. The send itself is
		// recorded in the ghosts sendN (number of sends) and sentRefs (references contained in sent values).
		vc.markShared(f.val(x.X))
		vc.recordSend(st, f.val(x.X), True)
		vc.yield(st)
	case *ssa.Select:
		for _, s := range x.States {
			if s.Send != nil {
				vc.markShared(f.val(s.Send))
			}
		}
		vc.yield(st)
		sel := f.selectOp(x)
		f.env[x] = sel
		for i, s := range x.States {
			if s.Send != nil && len(sel.Fs) > 0 {
				// this send happens iff the select chose this case
				vc.recordSend(st, f.val(s.Send), Eq(sel.Fs[0].T, IntLit(int64(i))))
			}
		}
	case *ssa.Go:
		f.goStmt(x, o)
	case *ssa.Defer:
		ds := f.deferBy[x]
		st.Armed[ds.id] = True
		ds.order = f.rpoIdx[b]
		// evaluate arguments now
		f.deferArgs[x] = f.callArgs(&x.Call)
	case *ssa.RunDefers:
		if len(f.defers) == 0 {
			return false
		}
		if f.vc.quiet == 0 {
			// all returns share one execution of the deferred calls: park this path here,
			// the deferred calls run once on the merged state (see Frame.finishDefers)
			f.parked = append(f.parked, parkedReturn{b: b, at: x, st: o.st.clone(), guard: o.guard})
			o.guards = make([]Term, len(b.Succs))
			for i := range o.guards {
				o.guards[i] = False
			}
			return true
		}
		f.runDefers(b, x, o)
	case *ssa.Call:
		if _, isBuiltin := x.Call.Value.(*ssa.Builtin); !isBuiltin {
			vc.yield(st)
		}
		res := f.call(x, &x.Call, o, x.Type())
		f.env[x] = res
		if f.noReturn(&x.Call) {
			o.guards = make([]Term, len(b.Succs))
			for i := range o.guards {
				o.guards[i] = False
			}
			return true
		}
	case *ssa.Panic:
		if !f.vc.allowPanic {
			f.safety("panic", x, False, g, "explicit panic reachable")
		}
		o.guards = make([]Term, len(b.Succs))
		for i := range o.guards {
			o.guards[i] = False
		}
		return true
	case *ssa.Jump:
		o.guards = []Term{g}
		return true
	case *ssa.If:
		c := f.val(x.Cond).T
		cn := vc.freshBool("c")
		vc.assumeRaw(Eq(cn, c))
		o.guards = []Term{And(g, cn), And(g, Not(cn))}
		return true
	case *ssa.Return:
		var rs []Val
		for _, r := range x.Results {
			rs = append(rs, f.val(r))
		}
		f.exits = append(f.exits, exitInfo{guard: g, st: st, results: rs, instr: x, ord: f.retOrd[x]})
		o.guards = nil
		return true
	default:
		vc.unsupported(fmt.Sprintf("instruction %T", in))
		if v, ok := in.(ssa.Value); ok {
			f.env[v] = vc.freshVal(v.Type(), "unsupported")
		}
	}
	return false
}

// closureEscapes: the closure value is used other than as the callee of a call or defer.
func closureEscapes(mc *ssa.MakeClosure) bool {
	refs := mc.Referrers()
	if refs == nil {
		return false
	}
	for _, r := range *refs {
		switch x := r.(type) {
		case *ssa.Call:
			if x.Call.Value != ssa.Value(mc) {
				return true
			}
		case *ssa.Defer:
			if x.Call.Value != ssa.Value(mc) {
				return true
			}
		case *ssa.DebugRef:
		default:
			return true
		}
	}
	return false
}

// isMethodOf reports whether fn (or the function it is nested in) is a method of struct type t.
func isMethodOf(fn *ssa.Function, t types.Type) bool {
	for f := fn; f != nil; f = f.Parent() {
		if recv := f.Signature.Recv(); recv != nil {
			rt := recv.Type()
			if p, ok := rt.(*types.Pointer); ok {
				rt = p.Elem()
			}
			if typeKey(rt) == typeKey(t) {
				return true
			}
		}
	}
	return false
}

func hasArrayField(t types.Type) bool {
	s, ok := structOf(t)
	if !ok {
		return kindOf(t) == KArray
	}
	for i := 0; i < s.NumFields(); i++ {
		if hasArrayField(s.Field(i).Type()) {
			return true
		}
	}
	return false
}

// nonEscapingAlloc reports whether the address of a local variable is only used
// for field accesses, loads and stores within its function.
func nonEscapingAlloc(a *ssa.Alloc) bool {
	var ok func(v ssa.Value, depth int) bool
	ok = func(v ssa.Value, depth int) bool {
		refs := v.Referrers()
		if refs == nil || depth > 4 {
			return false
		}
		for _, r := range *refs {
			switch x := r.(type) {
			case *ssa.DebugRef:
			case *ssa.UnOp:
				if x.Op.String() != "*" {
					return false
				}
			case *ssa.Store:
				if x.Val == v {
					return false
				}
			case *ssa.FieldAddr:
				if !ok(x, depth+1) {
					return false
				}
			default:
				return false
			}
		}
		return true
	}
	return ok(a, 0)
}

func fieldName(x *ssa.FieldAddr) string {
	pt := x.X.Type().Underlying().(*types.Pointer).Elem()
	if s, ok := structOf(pt); ok {
		return s.Field(x.Field).Name()
	}
	return "?"
}

func (vc *VC) newRef(hint string) Term {
	r := vc.freshInt(hint)
	var cs []Term
	cs = append(cs, Gt(r, IntLit(0)))
	for _, o := range vc.news {
		cs = append(cs, Ne(r, o))
	}
	for _, o := range vc.refVals {
		cs = append(cs, Ne(r, o))
	}
	vc.assumeRaw(And(cs...))
	vc.news = append(vc.news, r)
	return r
}

// markAlloc records a fresh object in the ghost allocation set.
func (vc *VC) markAlloc(st *State, r Term, t types.Type) {
	a := vc.heapGet(st, "G.alloc", ArrSort(SInt, SBool))
	vc.assumeRaw(Not(Select(a, r)))
	vc.heapSet(st, "G.alloc", vc.nameTerm(Store(a, r, True), "G.alloc"))
	if t == nil {
		return
	}
	// struct-typed fields embedded in a fresh object are fresh objects too
	if s, ok := structOf(t); ok {
		skey := typeKey(t)
		for i := 0; i < s.NumFields(); i++ {
			if s.Field(i).Name() == "_" {
				continue // blank fields cannot be addressed
			}
			if _, isS := structOf(s.Field(i).Type()); isS {
				sub := vc.subObj(r, skey, s.Field(i).Name())
				vc.news = append(vc.news, sub)
				vc.markAlloc(st, sub, s.Field(i).Type())
			}
		}
	}
}

// isAllocated: r is in the ghost allocation set of st.
func (vc *VC) isAllocated(st *State, r Term) Term {
	return Select(vc.heapGet(st, "G.alloc", ArrSort(SInt, SBool)), r)
}

func (vc *VC) zeroElems(st *State, arr Term, et types.Type) {
	if _, isStruct := structOf(et); isStruct {
		return // element objects: fields unconstrained (sound over-approximation)
	}
	if kindOf(et) == KArray {
		return
	}
	for _, l := range leavesOf(et) {
		name := "Elem." + typeKey(et) + l.suffix
		srt := ArrSort(SInt, ArrSort(SInt, l.sort))
		a := vc.heapGet(st, name, srt)
		z := Term{"((as const " + string(ArrSort(SInt, l.sort)) + ") " + vc.zeroOfSort(l.sort).S + ")", ArrSort(SInt, l.sort)}
		vc.heapSet(st, name, vc.nameTerm(Store(a, arr, z), smtName(name)))
	}
}

func (f *Frame) binop(x *ssa.BinOp, g Term) Val {
	vc := f.vc
	a := f.val(x.X)
	b := f.val(x.Y)
	t := x.Type()
	switch x.Op {
	case token.EQL:
		return Val{K: KBool, T: vc.valEq(a, b), Typ: t}
	case token.NEQ:
		return Val{K: KBool, T: Not(vc.valEq(a, b)), Typ: t}
	}
	k := kindOf(x.X.Type())
	if k == KStr {
		switch x.Op {
		case token.ADD:
			return Val{K: KStr, T: vc.strCat(a.T, b.T), Typ: t}
		case token.LSS, token.LEQ, token.GTR, token.GEQ:
			vc.decls.Fun("gstr.lt", []Sort{SStr, SStr}, SBool)
			lt := App(SBool, "gstr.lt", a.T, b.T)
			gt := App(SBool, "gstr.lt", b.T, a.T)
			switch x.Op {
			case token.LSS:
				return Val{K: KBool, T: lt, Typ: t}
			case token.GTR:
				return Val{K: KBool, T: gt, Typ: t}
			case token.LEQ:
				return Val{K: KBool, T: Not(gt), Typ: t}
			default:
				return Val{K: KBool, T: Not(lt), Typ: t}
			}
		}
	}
	if k == KBool {
		switch x.Op {
		case token.AND, token.LAND:
			return Val{K: KBool, T: And(a.T, b.T), Typ: t}
		case token.OR, token.LOR:
			return Val{K: KBool, T: Or(a.T, b.T), Typ: t}
		}
	}
	if k == KFloat {
		switch x.Op {
		case token.LSS, token.LEQ, token.GTR, token.GEQ:
			return Val{K: KBool, T: vc.freshBool("fcmp"), Typ: t}
		}
		return Val{K: KFloat, T: vc.freshInt("fop"), Typ: t}
	}
	if k != KInt {
		return vc.freshVal(t, "binop")
	}
	switch x.Op {
	case token.LSS:
		return Val{K: KBool, T: Lt(a.T, b.T), Typ: t}
	case token.LEQ:
		return Val{K: KBool, T: Le(a.T, b.T), Typ: t}
	case token.GTR:
		return Val{K: KBool, T: Gt(a.T, b.T), Typ: t}
	case token.GEQ:
		return Val{K: KBool, T: Ge(a.T, b.T), Typ: t}
	case token.ADD:
		return f.named(x, Val{K: KInt, T: wrapAddSub(Add(a.T, b.T), t), Typ: t})
	case token.SUB:
		return f.named(x, Val{K: KInt, T: wrapAddSub(Sub(a.T, b.T), t), Typ: t})
	case token.MUL:
		return f.named(x, Val{K: KInt, T: wrapTerm(Mul(a.T, b.T), t), Typ: t})
	case token.QUO:
		f.safety("div", x, Ne(b.T, IntLit(0)), g, "integer division by zero")
		q := truncDiv(a.T, b.T)
		// the only quotient outside the type's range is MinInt / -1
		bits, signed := intBits(t)
		if signed && bits > 0 {
			h := BigLit(pow2[bits-1])
			q = Ite(Eq(q, h), App(SInt, "-", h), q)
		}
		return f.named(x, Val{K: KInt, T: q, Typ: t})
	case token.REM:
		f.safety("div", x, Ne(b.T, IntLit(0)), g, "integer remainder by zero")
		q := truncDiv(a.T, b.T)
		// for a >= 0, b > 0 Go's remainder is the SMT-LIB mod (keeps the term linear-friendly)
		r := Ite(And(Ge(a.T, IntLit(0)), Gt(b.T, IntLit(0))), App(SInt, "mod", a.T, b.T), Sub(a.T, Mul(b.T, q)))
		return f.named(x, Val{K: KInt, T: r, Typ: t})
	case token.AND:
		if c, ok := litValue(b.T); ok {
			if r, ok := andConst(a.T, c, t); ok {
				return f.named(x, Val{K: KInt, T: r, Typ: t})
			}
		}
		if c, ok := litValue(a.T); ok {
			if r, ok := andConst(b.T, c, t); ok {
				return f.named(x, Val{K: KInt, T: r, Typ: t})
			}
		}
	case token.SHL:
		if c, ok := litValue(b.T); ok && c >= 0 && c < 64 {
			p := "1"
			for i := int64(0); i < c; i++ {
				p = mulDec2(p)
			}
			return f.named(x, Val{K: KInt, T: wrapTerm(Mul(a.T, BigLit(p)), t), Typ: t})
		}
	case token.SHR:
		if c, ok := litValue(b.T); ok && c >= 0 && c < 64 {
			p := "1"
			for i := int64(0); i < c; i++ {
				p = mulDec2(p)
			}
			return f.named(x, Val{K: KInt, T: App(SInt, "div", a.T, BigLit(p)), Typ: t})
		}
	}
	// uninterpreted bit operation
	fn := "bitop." + x.Op.String()
	fn = smtName(map[string]string{"&": "and", "|": "or", "^": "xor", "<<": "shl", ">>": "shr", "&^": "andnot"}[x.Op.String()])
	fn = "bitop." + fn
	vc.decls.Fun(fn, []Sort{SInt, SInt}, SInt)
	r := Val{K: KInt, T: App(SInt, fn, a.T, b.T), Typ: t}
	vc.assumeWF(r)
	return r
}

// named binds a derived integer to a fresh constant to keep terms small.
func (f *Frame) named(x ssa.Value, v Val) Val {
	v.T = f.vc.nameTerm(v.T, x.Name())
	return v
}

func litValue(t Term) (int64, bool) {
	var n int64
	if _, err := fmt.Sscanf(t.S, "%d", &n); err == nil && fmt.Sprint(n) == t.S {
		return n, true
	}
	if _, err := fmt.Sscanf(t.S, "(- %d)", &n); err == nil && fmt.Sprintf("(- %d)", n) == t.S {
		return -n, true
	}
	return 0, false
}

// andConst translates x & c exactly for masks of the form -2^k and 2^k-1.
func andConst(x Term, c int64, t types.Type) (Term, bool) {
	if c < 0 {
		m := -c
		if m&(m-1) == 0 { // -2^k
			return Sub(x, App(SInt, "mod", x, IntLit(m))), true
		}
	}
	if c >= 0 && (c+1)&c == 0 { // 2^k - 1
		return App(SInt, "mod", x, IntLit(c+1)), true
	}
	return Term{}, false
}

// truncDiv is Go's truncated division on mathematical integers.
func truncDiv(a, b Term) Term {
	fl := App(SInt, "div", a, b) // SMT-LIB: floor for b>0, ceil for b<0 (remainder non-negative)
	// trunc(a/b): if a >= 0 or b divides a: SMT div is right for b>0; general form:
	// q = ite(a >= 0, div a b, -(div (-a) b))
	neg := App(SInt, "-", App(SInt, "div", App(SInt, "-", a), b))
	return Ite(Ge(a, IntLit(0)), fl, neg)
}

func (f *Frame) unop(x *ssa.UnOp, st *State, g Term) Val {
	vc := f.vc
	v := f.val(x.X)
	t := x.Type()
	switch x.Op {
	case token.MUL: // load
		f.nonNil(x, v, g, "load")
		r := vc.load(st, v, t)
		r.Typ = t
		vc.assumeWF(r)
		if gl, ok := x.X.(*ssa.Global); ok && r.K == KIface && gl.Pkg != nil && wellKnownErrorsNew[gl.Pkg.Pkg.Path()+"."+gl.Name()] {
			// standard-library sentinel created by errors.New in its package initialiser (bodies of
			// library initialisers are not loaded, so these are listed by name)
			vc.assume(Not(vc.isNil(r)), "library variable "+gl.Name()+" is a non-nil errors.New value")
			if ep := vc.eng.prog.ImportedPackage("errors"); ep != nil {
				if o := ep.Pkg.Scope().Lookup("errorString"); o != nil {
					vc.assume(Eq(r.Tag, vc.typeTag(types.NewPointer(o.Type()))), "library variable "+gl.Name()+" holds a *errors.errorString")
				}
			}
		}
		if gl, ok := x.X.(*ssa.Global); ok && vc.eng.nonNilGlobal[gl] {
			// assigned once, in the package initialiser, with a non-nil value
			vc.assume(Not(vc.isNil(r)), "package-level variable "+gl.Name()+" is initialised once with a non-nil value")
			if dt := vc.eng.globalDyn[gl]; dt != nil && r.K == KIface {
				vc.assume(Eq(r.Tag, vc.typeTag(dt)), "package-level variable "+gl.Name()+" holds a "+dt.String())
			}
		}
		return r
	case token.NOT:
		return Val{K: KBool, T: Not(v.T), Typ: t}
	case token.SUB:
		if kindOf(t) == KFloat {
			return Val{K: KFloat, T: vc.freshInt("fneg"), Typ: t}
		}
		return f.named(x, Val{K: KInt, T: wrapAddSub(App(SInt, "-", v.T), t), Typ: t})
	case token.ARROW:
		vc.yield(st)
		return vc.freshVal(t, "recv")
	case token.XOR:
		bits, signed := intBits(t)
		if signed || bits == 0 {
			return f.named(x, Val{K: KInt, T: Sub(App(SInt, "-", v.T), IntLit(1)), Typ: t})
		}
		return f.named(x, Val{K: KInt, T: Sub(BigLit(pow2[bits]), Add(v.T, IntLit(1))), Typ: t})
	}
	return vc.freshVal(t, "unop")
}

// markShared records the local cells reachable from a value that escapes to
// another goroutine (closure bindings, pointers): from now on they are
// havocked at every yield point (call, channel operation, select).
func (vc *VC) markShared(v Val) {
	switch v.K {
	case KFunc:
		fn, _ := v.Fn.(*ssa.Function)
		for i, b := range v.Binds {
			if fn != nil && i < len(fn.FreeVars) && !closureMayWrite(fn, i, 0) {
				// the function (and every function literal nested in it) only reads this captured variable:
				// running it concurrently cannot change what the enclosing function reads
				continue
			}
			vc.markShared(b)
		}
	case KStruct, KTuple:
		for _, f := range v.Fs {
			vc.markShared(f)
		}
	case KPtr:
		if v.Local != "" || v.T.S == "0" || v.Typ == nil {
			return
		}
		et := derefType(v.Typ)
		if et == nil {
			return
		}
		if _, isStruct := structOf(et); isStruct {
			return // heap objects are governed by contracts, not by this rule
		}
		isNew := false
		for _, n := range vc.news {
			if n.S == v.T.S {
				isNew = true
			}
		}
		if !isNew {
			return
		}
		if vc.sharedCells == nil {
			vc.sharedCells = map[string]Val{}
		}
		vc.sharedCells[v.T.S+"|"+fmt.Sprint(len(v.Path))] = v
	}
}

// yield havocs every local cell shared with other goroutines.
func (vc *VC) yield(st *State) {
	if len(vc.sharedCells) == 0 {
		return
	}
	keys := make([]string, 0, len(vc.sharedCells))
	for k := range vc.sharedCells {
		keys = append(keys, k)
	}
	sort.Strings(keys)
	for _, k := range keys {
		p := vc.sharedCells[k]
		for _, l := range vc.objectLocs(p, derefType(p.Typ)) {
			vc.havoc(st, l)
		}
	}
}

func (f *Frame) isShared(a *ssa.Alloc) bool {
	for fr := f; fr != nil; fr = fr.parent {
		if fr.shared[a] {
			return true
		}
	}
	return false
}

func (f *Frame) isSharedFree(fv *ssa.FreeVar) bool { return f.shared[fv] }

func (f *Frame) indexAddr(x *ssa.IndexAddr, g Term) Val {
	vc := f.vc
	base := f.val(x.X)
	idx := f.val(x.Index)
	switch bt := x.X.Type().Underlying().(type) {
	case *types.Slice:
		f.safety("index", x, And(Le(IntLit(0), idx.T), Lt(idx.T, base.Len)), g, "slice index in range")
		r := vc.elemAddr(base, idx.T, bt.Elem())
		r.Typ = x.Type()
		return r
	case *types.Pointer:
		at := bt.Elem().Underlying().(*types.Array)
		f.nonNil(x, base, g, "array index")
		f.safety("index", x, And(Le(IntLit(0), idx.T), Lt(idx.T, IntLit(at.Len()))), g, "array index in range")
		s := Val{K: KSlice, T: base.T, Off: IntLit(0), Len: IntLit(at.Len()), Cap: IntLit(at.Len())}
		r := vc.elemAddr(s, idx.T, at.Elem())
		r.Typ = x.Type()
		return r
	}
	return vc.freshVal(x.Type(), "indexaddr")
}

func (f *Frame) sliceOp(x *ssa.Slice, st *State, g Term) Val {
	vc := f.vc
	base := f.val(x.X)
	var lo, hi Term
	if x.Low != nil {
		lo = f.val(x.Low).T
	} else {
		lo = IntLit(0)
	}
	switch bt := x.X.Type().Underlying().(type) {
	case *types.Slice:
		if x.High != nil {
			hi = f.val(x.High).T
		} else {
			hi = base.Len
		}
		cp := base.Cap
		if x.Max != nil {
			mx := f.val(x.Max).T
			f.safety("slice", x, And(Le(IntLit(0), lo), Le(lo, hi), Le(hi, mx), Le(mx, base.Cap)), g, "slice bounds in range")
			cp = mx
		} else {
			f.safety("slice", x, And(Le(IntLit(0), lo), Le(lo, hi), Le(hi, base.Cap)), g, "slice bounds in range")
		}
		return Val{K: KSlice, T: base.T, Off: vc.simpAdd(base.Off, lo), Len: vc.simpSub(hi, lo), Cap: vc.simpSub(cp, lo), Typ: x.Type()}
	case *types.Basic: // string
		l := vc.strLen(base.T)
		if x.High != nil {
			hi = f.val(x.High).T
		} else {
			hi = l
		}
		f.safety("slice", x, And(Le(IntLit(0), lo), Le(lo, hi), Le(hi, l)), g, "string slice bounds in range")
		return Val{K: KStr, T: vc.strSub(base.T, lo, hi), Typ: x.Type()}
	case *types.Pointer:
		at := bt.Elem().Underlying().(*types.Array)
		n := IntLit(at.Len())
		if x.High != nil {
			hi = f.val(x.High).T
		} else {
			hi = n
		}
		f.nonNil(x, base, g, "slice of array pointer")
		f.safety("slice", x, And(Le(IntLit(0), lo), Le(lo, hi), Le(hi, n)), g, "array slice bounds in range")
		return Val{K: KSlice, T: base.T, Off: lo, Len: vc.simpSub(hi, lo), Cap: vc.simpSub(n, lo), Typ: x.Type()}
	}
	return vc.freshVal(x.Type(), "slice")
}

func (vc *VC) simpAdd(a, b Term) Term {
	if a.S == "0" {
		return b
	}
	if b.S == "0" {
		return a
	}
	return Add(a, b)
}

func (vc *VC) simpSub(a, b Term) Term {
	if b.S == "0" {
		return a
	}
	return Sub(a, b)
}

func (f *Frame) convert(x *ssa.Convert, st *State) Val {
	vc := f.vc
	v := f.val(x.X)
	from, to := x.X.Type(), x.Type()
	fk, tk := kindOf(from), kindOf(to)
	switch {
	case fk == KInt && tk == KInt:
		flo, fhi, ok1 := intRange(from)
		tlo, thi, ok2 := intRange(to)
		if ok1 && ok2 && rangeWithin(flo, fhi, tlo, thi) {
			return Val{K: KInt, T: v.T, Typ: to}
		}
		return f.named(x, Val{K: KInt, T: wrapTerm(v.T, to), Typ: to})
	case fk == KInt && tk == KFloat, fk == KFloat && tk == KFloat:
		return Val{K: KFloat, T: vc.freshInt("tofloat"), Typ: to}
	case fk == KFloat && tk == KInt:
		return vc.freshVal(to, "fromfloat")
	case fk == KStr && tk == KSlice:
		// []byte(s): fresh array of the same length
		arr := vc.newRef("bytes")
		l := vc.strLen(v.T)
		if sl, ok := to.Underlying().(*types.Slice); ok && kindOf(sl.Elem()) == KInt {
			if b, ok := sl.Elem().Underlying().(*types.Basic); ok && b.Kind() == types.Uint8 {
				// the new array holds the bytes of the string: gstr.bytes(s)
				vc.markAlloc(st, arr, nil)
				vc.decls.Fun("gstr.bytes", []Sort{SStr}, ArrSort(SInt, SInt))
				name := "Elem." + typeKey(sl.Elem())
				A := vc.heapGet(st, name, ArrSort(SInt, ArrSort(SInt, SInt)))
				vc.heapSet(st, name, vc.nameTerm(Store(A, arr, App(ArrSort(SInt, SInt), "gstr.bytes", v.T)), smtName(name)))
			}
		}
		return Val{K: KSlice, T: arr, Off: IntLit(0), Len: l, Cap: l, Typ: to}
	case fk == KSlice && tk == KStr:
		r := vc.freshVal(to, "string")
		vc.assumeRaw(Eq(vc.strLen(r.T), v.Len))
		return r
	case fk == KInt && tk == KStr:
		return vc.freshVal(to, "runestring")
	case fk == KPtr && tk == KPtr:
		v.Typ = to
		return v
	}
	r := vc.freshVal(to, "convert")
	return r
}

func rangeWithin(flo, fhi, tlo, thi string) bool {
	return bigLE(tlo, flo) && bigLE(fhi, thi)
}

func bigLE(a, b string) bool {
	na, nb := a[0] == '-', b[0] == '-'
	if na && !nb {
		return true
	}
	if !na && nb {
		return false
	}
	if na {
		a, b = b[1:], a[1:]
	}
	if len(a) != len(b) {
		return len(a) < len(b)
	}
	return a <= b
}

func (f *Frame) typeAssert(x *ssa.TypeAssert, g Term) Val {
	vc := f.vc
	v := f.val(x.X)
	at := x.AssertedType
	var ok Term
	var res Val
	if ai, isIface := at.Underlying().(*types.Interface); isIface {
		if st := x.X.Type(); types.Implements(st, ai) {
			// the static type of the operand already implements the asserted interface:
			// the assertion is the nil check go/ssa emits for method values
			ok = Ne(v.Tag, IntLit(0))
		} else {
			ok = vc.freshBool("implements")
			vc.assumeRaw(Implies(ok, Ne(v.Tag, IntLit(0))))
		}
		// if the dynamic type is known to be one of the tagged types implementing the interface we could decide; keep opaque
		res = Val{K: KIface, Tag: v.Tag, T: v.T, Typ: at}
	} else {
		ok = Eq(v.Tag, vc.typeTag(at))
		res = vc.unbox(v.T, at)
		res.Typ = at
	}
	if x.CommaOk {
		zero := vc.zeroVal(at)
		return Val{K: KTuple, Fs: []Val{vc.iteVal(ok, res, zero), {K: KBool, T: ok, Typ: types.Typ[types.Bool]}}, Typ: x.Type()}
	}
	f.safety("typeassert", x, ok, g, "type assertion to "+at.String()+" holds")
	return res
}

func (f *Frame) next(x *ssa.Next, st *State) Val {
	vc := f.vc
	tt := x.Type().(*types.Tuple)
	ok := vc.freshBool("next.ok")
	r := Val{K: KTuple, Typ: tt, Fs: []Val{{K: KBool, T: ok, Typ: types.Typ[types.Bool]}}}
	for i := 1; i < tt.Len(); i++ {
		if tt.At(i).Type() == nil || isInvalidType(tt.At(i).Type()) {
			r.Fs = append(r.Fs, Val{K: KInt, T: IntLit(0)})
			continue
		}
		r.Fs = append(r.Fs, vc.freshVal(tt.At(i).Type(), "next"))
	}
	// map iteration: the key is in the domain
	if rg, isR := x.Iter.(*ssa.Range); isR && !x.IsString {
		m := f.val(rg.X)
		if m.K == KMap && len(r.Fs) > 1 && r.Fs[1].T.S != "0" {
			mt := rg.X.Type().Underlying().(*types.Map)
			has, v := vc.mapGet(st, m, r.Fs[1], mt)
			vc.assumeRaw(Implies(ok, has))
			if len(r.Fs) > 2 && r.Fs[2].T.S != "0" {
				vc.assumeRaw(Implies(ok, vc.valEq(r.Fs[2], v)))
			}
		}
	}
	return r
}

func isInvalidType(t types.Type) bool {
	b, ok := t.(*types.Basic)
	return ok && b.Kind() == types.Invalid
}

func (f *Frame) selectOp(x *ssa.Select) Val {
	vc := f.vc
	tt := x.Type().(*types.Tuple)
	r := Val{K: KTuple, Typ: tt}
	idx := vc.freshInt("select.idx")
	lo := int64(0)
	if !x.Blocking {
		lo = -1
	}
	vc.assumeRaw(And(Le(IntLit(lo), idx), Lt(idx, IntLit(int64(len(x.States))))))
	r.Fs = append(r.Fs, Val{K: KInt, T: idx, Typ: types.Typ[types.Int]})
	for i := 1; i < tt.Len(); i++ {
		r.Fs = append(r.Fs, vc.freshVal(tt.At(i).Type(), "select"))
	}
	return r
}

func (f *Frame) goStmt(x *ssa.Go, o *blockOut) {
	// The goroutine body is not interleaved. Every local cell it captures is
	// marked shared: later reads in this function return unconstrained values.
	f.vc.goroutines++
	if !x.Call.IsInvoke() {
		f.vc.markShared(f.val(x.Call.Value))
	}
	for _, a := range x.Call.Args {
		f.vc.markShared(f.val(a))
	}
}

var wellKnownErrorsNew = map[string]bool{
	"io.EOF": true, "io.ErrUnexpectedEOF": true, "io.ErrShortWrite": true, "io.ErrShortBuffer": true,
	"io.ErrNoProgress": true, "io.ErrClosedPipe": true, "context.Canceled": true,
}

func boundFnName(method string) string { return "bound." + smtName(method) }

// recordSend updates the ghosts of channel sends: under cond, sendN grows by one and every reference
// contained in the sent value is added to sentRefs (element addresses as elemkey(array, index)).
func (vc *VC) recordSend(st *State, v Val, cond Term) {
	n := vc.heapGet(st, "G.sendN", SInt)
	vc.heapSet(st, "G.sendN", vc.nameTerm(Ite(cond, Add(n, IntLit(1)), n), "G.sendN"))
	set := vc.heapGet(st, "G.sentRefs", ArrSort(SInt, SBool))
	cur := set
	for _, r := range vc.refsOf(v) {
		cur = Store(cur, r, True)
	}
	if cur.S != set.S {
		vc.heapSet(st, "G.sentRefs", vc.nameTerm(Ite(cond, cur, set), "G.sentRefs"))
	}
}

func (vc *VC) elemKey(arr, idx Term) Term {
	vc.decls.Fun("elemkey", []Sort{SInt, SInt}, SInt)
	return App(SInt, "elemkey", arr, idx)
}

func (vc *VC) refsOf(v Val) []Term {
	var out []Term
	switch v.K {
	case KPtr:
		if v.T.S == "" {
			return nil
		}
		if len(v.Path) == 1 && v.Path[0].IsIdx {
			out = append(out, vc.elemKey(v.T, v.Path[0].Idx))
		} else if len(v.Path) == 0 {
			out = append(out, v.T)
		}
	case KIface, KMap, KChan:
		if v.T.S != "" {
			out = append(out, v.T)
		}
	case KStruct, KTuple:
		for _, f := range v.Fs {
			out = append(out, vc.refsOf(f)...)
		}
	}
	return out
}

// closureMayWrite: may fn (or a function literal nested in it) assign the captured variable number idx,
// or let its address escape? Loads are the only uses considered harmless.
func closureMayWrite(fn *ssa.Function, idx int, depth int) bool {
	if depth > 6 || idx >= len(fn.FreeVars) {
		return true
	}
	fv := fn.FreeVars[idx]
	refs := fv.Referrers()
	if refs == nil {
		return false
	}
	for _, r := range *refs {
		switch x := r.(type) {
		case *ssa.DebugRef:
		case *ssa.UnOp:
			if x.Op != token.MUL {
				return true
			}
		case *ssa.MakeClosure:
			inner, ok := x.Fn.(*ssa.Function)
			if !ok {
				return true
			}
			for j, b := range x.Bindings {
				if b == ssa.Value(fv) && closureMayWrite(inner, j, depth+1) {
					return true
				}
			}
		default:
			return true
		}
	}
	return false
}
