package main

// Symbolic values and the memory model.
//
//  - every integer kind, references, map/chan/func identities: sort Int
//  - bool: Bool; string: uninterpreted sort GStr
//  - struct values are flattened (one Val per field)
//  - slices are (backing array ref, offset, len, cap)
//  - interfaces are (type tag, payload)
//  - the heap is one SMT array per (struct type, field), per pointee type for
//    plain cells, and per element type for backing arrays.

import (
	"crypto/sha256"
	"encoding/hex"
	"fmt"
	"go/types"
	"strings"
)

type Kind int

const (
	KInt Kind = iota
	KBool
	KStr
	KFloat
	KPtr
	KStruct
	KSlice
	KIface
	KMap
	KChan
	KFunc
	KArray
	KTuple
	KSpec
	KUnit
)

type PathEl struct {
	IsIdx  bool
	Field  int
	Idx    Term
	Struct *types.Struct // struct containing the field
	SKey   string        // type key of that struct
}

type Val struct {
	K     Kind
	T     Term
	Tag   Term
	Fs    []Val
	Off   Term
	Len   Term
	Cap   Term
	Path  []PathEl
	Typ   types.Type
	Fn    interface{} // *ssa.Function for known function values
	Binds []Val
	Recv  *Val // bound method receiver
	SubOf string // for pointers to embedded struct fields: "<struct type key>.<field>"
	Local string // for pointers into a non-escaping local struct variable: key prefix of its private storage
}

func scalar(t Term, typ types.Type, k Kind) Val { return Val{K: k, T: t, Typ: typ} }

func kindOf(t types.Type) Kind {
	switch u := t.Underlying().(type) {
	case *types.Basic:
		info := u.Info()
		switch {
		case info&types.IsBoolean != 0:
			return KBool
		case info&types.IsString != 0:
			return KStr
		case info&types.IsInteger != 0:
			return KInt
		case info&types.IsFloat != 0, info&types.IsComplex != 0:
			return KFloat
		case u.Kind() == types.UnsafePointer:
			return KPtr
		case u.Kind() == types.UntypedNil:
			return KPtr
		}
		return KInt
	case *types.Pointer:
		return KPtr
	case *types.Struct:
		return KStruct
	case *types.Slice:
		return KSlice
	case *types.Interface:
		return KIface
	case *types.Map:
		return KMap
	case *types.Chan:
		return KChan
	case *types.Signature:
		return KFunc
	case *types.Array:
		return KArray
	case *types.Tuple:
		return KTuple
	case *types.TypeParam:
		return KIface
	}
	return KInt
}

func sortOfKind(k Kind) Sort {
	switch k {
	case KBool:
		return SBool
	case KStr:
		return SStr
	}
	return SInt
}

// typeKey gives a stable, SMT-safe name for a Go type.
func typeKey(t types.Type) string {
	t = types.Unalias(t)
	switch x := t.(type) {
	case *types.Named:
		o := x.Obj()
		s := o.Name()
		if o.Pkg() != nil {
			s = o.Pkg().Path() + "." + s
		}
		if ta := x.TypeArgs(); ta != nil && ta.Len() > 0 {
			var as []string
			for i := 0; i < ta.Len(); i++ {
				as = append(as, typeKey(ta.At(i)))
			}
			s += "[" + strings.Join(as, ",") + "]"
		}
		return s
	case *types.Pointer:
		return "*" + typeKey(x.Elem())
	case *types.Basic:
		return x.Name()
	case *types.Slice:
		return "[]" + typeKey(x.Elem())
	case *types.Struct:
		h := sha256.Sum256([]byte(x.String()))
		return "anon" + hex.EncodeToString(h[:4])
	case *types.Interface:
		if x.Empty() {
			return "any"
		}
		h := sha256.Sum256([]byte(x.String()))
		return "iface" + hex.EncodeToString(h[:4])
	case *types.Map:
		return "map[" + typeKey(x.Key()) + "]" + typeKey(x.Elem())
	case *types.Array:
		return fmt.Sprintf("[%d]%s", x.Len(), typeKey(x.Elem()))
	case *types.Chan:
		return "chan " + typeKey(x.Elem())
	case *types.Signature:
		h := sha256.Sum256([]byte(x.String()))
		return "func" + hex.EncodeToString(h[:4])
	}
	return t.String()
}

func intRange(t types.Type) (lo, hi string, ok bool) {
	b, isB := t.Underlying().(*types.Basic)
	if !isB {
		return "", "", false
	}
	switch b.Kind() {
	case types.Int, types.Int64:
		return "-9223372036854775808", "9223372036854775807", true
	case types.Int32:
		return "-2147483648", "2147483647", true
	case types.Int16:
		return "-32768", "32767", true
	case types.Int8:
		return "-128", "127", true
	case types.Uint, types.Uint64, types.Uintptr:
		return "0", "18446744073709551615", true
	case types.Uint32:
		return "0", "4294967295", true
	case types.Uint16:
		return "0", "65535", true
	case types.Uint8:
		return "0", "255", true
	}
	return "", "", false
}

func intBits(t types.Type) (bits int, signed bool) {
	b, isB := t.Underlying().(*types.Basic)
	if !isB {
		return 64, true
	}
	switch b.Kind() {
	case types.Int, types.Int64:
		return 64, true
	case types.Int32:
		return 32, true
	case types.Int16:
		return 16, true
	case types.Int8:
		return 8, true
	case types.Uint, types.Uint64, types.Uintptr:
		return 64, false
	case types.Uint32:
		return 32, false
	case types.Uint16:
		return 16, false
	case types.Uint8:
		return 8, false
	case types.UntypedInt:
		return 0, true
	}
	return 64, true
}

var pow2 = map[int]string{8: "256", 16: "65536", 32: "4294967296", 64: "18446744073709551616",
	7: "128", 15: "32768", 31: "2147483648", 63: "9223372036854775808"}

// wrapTerm maps a mathematical integer into the range of Go type t
// (two's complement wrap-around).
func wrapTerm(x Term, t types.Type) Term {
	bits, signed := intBits(t)
	if bits == 0 {
		return x
	}
	m := BigLit(pow2[bits])
	if !signed {
		return App(SInt, "mod", x, m)
	}
	h := BigLit(pow2[bits-1])
	return Sub(App(SInt, "mod", Add(x, h), m), h)
}

// wrapAddSub is a cheaper wrap for results of one addition/subtraction of two
// in-range operands.
func wrapAddSub(x Term, t types.Type) Term {
	bits, signed := intBits(t)
	if bits == 0 {
		return x
	}
	m := BigLit(pow2[bits])
	if !signed {
		return Ite(Lt(x, IntLit(0)), Add(x, m), Ite(Ge(x, m), Sub(x, m), x))
	}
	h := BigLit(pow2[bits-1])
	return Ite(Ge(x, h), Sub(x, m), Ite(Lt(x, App(SInt, "-", h)), Add(x, m), x))
}

// ---------------------------------------------------------------------------
// State

type State struct {
	H     map[string]Term // heap arrays and ghost globals, current version
	Armed map[int]Term    // defer site -> armed flag
}

func (s *State) clone() *State {
	n := &State{H: make(map[string]Term, len(s.H)), Armed: make(map[int]Term, len(s.Armed))}
	for k, v := range s.H {
		n.H[k] = v
	}
	for k, v := range s.Armed {
		n.Armed[k] = v
	}
	return n
}
