package main

// Replay of counter-models against the real code.
//
// An adapter (replay/adapters.json) names, for a function under contract, the
// contract-language expressions whose values in the solver's model describe a
// concrete input (witness), optional "prefer" constraints that steer the model
// towards small, realisable values, and a Go test (run in-package through
// `go test -overlay`, nothing is written to /repo) that takes those values from
// environment variables and prints REPLAY-CONFIRMED when the real code shows
// the failure (panic or violated postcondition).

import (
	"encoding/json"
	"fmt"
	"os"
	"os/exec"
	"path/filepath"
	"regexp"
	"sort"
	"strings"
	"time"
)

type ReplayAdapter struct {
	Functions []string          `json:"functions"` // substrings of the function key
	Witness   map[string]string `json:"witness"`   // ENV name -> contract expression
	Prefer    []string          `json:"prefer"`    // contract expressions added when asking for the witness model
	Pkg       string            `json:"pkg"`       // package directory relative to the repository
	File      string            `json:"file"`      // test file (relative to /verif/replay)
	Test      string            `json:"test"`
}

func loadAdapters(path string) []*ReplayAdapter {
	b, err := os.ReadFile(path)
	if err != nil {
		return nil
	}
	var as []*ReplayAdapter
	if json.Unmarshal(b, &as) != nil {
		return nil
	}
	return as
}

func (eng *Engine) adapterFor(key string) *ReplayAdapter {
	for _, a := range eng.adapters {
		for _, f := range a.Functions {
			if strings.Contains(key, f) {
				return a
			}
		}
	}
	return nil
}

// witnessTerms evaluates the adapter's expressions at the current program point.
func (vc *VC) witnessTerms() []WitnessTerm {
	f := vc.curFrame
	if f == nil || vc.curState == nil || vc.curInstr == nil {
		return nil
	}
	var out []WitnessTerm
	names := make([]string, 0, len(vc.adapter.Witness))
	for n := range vc.adapter.Witness {
		names = append(names, n)
	}
	sort.Strings(names)
	saved := f.entrySt
	all := append([]string(nil), names...)
	for i := range vc.adapter.Prefer {
		all = append(all, fmt.Sprintf("@prefer%d", i))
	}
	for _, n := range all {
		src := ""
		if strings.HasPrefix(n, "@prefer") {
			var k int
			fmt.Sscanf(n, "@prefer%d", &k)
			src = vc.adapter.Prefer[k]
		} else {
			src = vc.adapter.Witness[n]
		}
		e, err := ParseSpec(src)
		if err != nil {
			continue
		}
		env := f.specEnv(vc.curState, vc.curInstr.Block(), vc.curInstr)
		nAss := len(vc.assumes)
		func() {
			defer func() {
				if r := recover(); r != nil {
					if _, ok := r.(specErr); !ok {
						panic(r)
					}
				}
			}()
			v := env.Eval(e)
			if v.T.S != "" && (v.K == KInt || v.K == KBool || v.K == KSpec) {
				out = append(out, WitnessTerm{Name: n, T: v.T})
			} else if v.K == KPtr && len(v.Path) == 0 {
				out = append(out, WitnessTerm{Name: n, T: v.T})
			}
		}()
		// side facts emitted while evaluating witnesses must not change the obligation's context
		vc.assumes = vc.assumes[:nAss]
	}
	f.entrySt = saved
	return out
}

var getValueRe = regexp.MustCompile(`\(\s*\(([^()]+|\([^()]*\)|[^()]*\([^()]*\)[^()]*)\s+((?:\(- \d+\))|-?\d+|true|false)\)\s*\)`)

// witnessValues asks z3 for the values of the witness terms in a model of the failing query.
func witnessValues(query string, ws []WitnessTerm) map[string]string {
	if len(ws) == 0 {
		return nil
	}
	body := strings.Replace(query, "(check-sat)\n", "", 1)
	run := func(withPrefer bool) map[string]string {
		var b strings.Builder
		b.WriteString(body)
		for _, w := range ws {
			if strings.HasPrefix(w.Name, "@prefer") && withPrefer {
				b.WriteString("(assert " + w.T.S + ")\n")
			}
		}
		b.WriteString("(check-sat)\n")
		for _, w := range ws {
			if !strings.HasPrefix(w.Name, "@prefer") {
				b.WriteString("(get-value (" + w.T.S + "))\n")
			}
		}
		f := filepath.Join(scratchDir, fmt.Sprintf("witness-%d.smt2", time.Now().UnixNano()))
		os.WriteFile(f, []byte(b.String()), 0o644)
		defer os.Remove(f)
		out, _ := exec.Command("z3-new", "-T:20", "-smt2", f).CombinedOutput()
		lines := strings.Split(string(out), "\n")
		if len(lines) == 0 || strings.TrimSpace(lines[0]) != "sat" {
			return nil
		}
		vals := map[string]string{}
		i := 1
		for _, w := range ws {
			if strings.HasPrefix(w.Name, "@prefer") {
				continue
			}
			// each get-value answer is one s-expression, possibly spanning lines; take the last token
			if i >= len(lines) {
				break
			}
			ans := lines[i]
			i++
			for strings.Count(ans, "(") > strings.Count(ans, ")") && i < len(lines) {
				ans += " " + lines[i]
				i++
			}
			ans = strings.TrimSpace(ans)
			if strings.HasPrefix(ans, "(error") {
				continue
			}
			// ((term value))
			ans = strings.TrimSuffix(strings.TrimSuffix(ans, ")"), ")")
			var val string
			if strings.HasSuffix(ans, ")") { // (- n)
				k := strings.LastIndex(ans, "(- ")
				if k >= 0 {
					val = "-" + strings.TrimSpace(ans[k+3:len(ans)-1])
				}
			} else {
				k := strings.LastIndexAny(ans, " \t")
				val = strings.TrimSpace(ans[k+1:])
			}
			if val != "" {
				vals[w.Name] = val
			}
		}
		return vals
	}
	if v := run(true); v != nil {
		return v
	}
	return run(false)
}

// runReplay executes the adapter's test with the witness values in the environment.
func runReplay(repo string, a *ReplayAdapter, vals map[string]string) (string, bool) {
	src := filepath.Join("/verif/replay", a.File)
	if _, err := os.Stat(src); err != nil {
		return "replay adapter file missing: " + src, false
	}
	tmp, err := os.MkdirTemp("", "govc-replay-")
	if err != nil {
		return err.Error(), false
	}
	defer os.RemoveAll(tmp)
	ov := fmt.Sprintf(`{"Replace": {%q: %q}}`, filepath.Join(repo, a.Pkg, filepath.Base(a.File)), src)
	os.WriteFile(filepath.Join(tmp, "ov.json"), []byte(ov), 0o644)
	cmd := exec.Command("go", "test", "-overlay", filepath.Join(tmp, "ov.json"), "-vet=off", "-count=1", "-timeout", "60s", "-run", "^"+a.Test+"$", "-v", "./"+a.Pkg+"/")
	cmd.Dir = repo
	cmd.Env = append(os.Environ(), "GOFLAGS=-mod=mod", "GOPROXY=off")
	var envDesc []string
	for k, v := range vals {
		cmd.Env = append(cmd.Env, k+"="+v)
		envDesc = append(envDesc, k+"="+v)
	}
	sort.Strings(envDesc)
	out, _ := cmd.CombinedOutput()
	s := string(out)
	if len(s) > 3000 {
		s = s[len(s)-3000:]
	}
	return "witness: " + strings.Join(envDesc, " ") + "\n" + s, strings.Contains(string(out), "REPLAY-CONFIRMED")
}
