package main

import (
	"fmt"
	"go/types"
	"sort"
	"strings"

	"golang.org/x/tools/go/ssa"
)

func (f *Frame) specEnv(st *State, at *ssa.BasicBlock, atI ssa.Instruction) *SpecEnv {
	f.entrySt = st
	vars := map[string]Val{}
	for i, p := range f.fn.Params {
		if i < len(f.params) {
			vars[p.Name()] = f.params[i]
		}
	}
	return &SpecEnv{vc: f.vc, f: f, vars: vars, cur: st, old: f.rootPre(), at: at, atI: atI, pkg: f.fn.Pkg.Pkg}
}

// rootPre is the pre-state `old()` refers to: the entry state of this frame's function.
func (f *Frame) rootPre() *State {
	if f.preSt != nil {
		return f.preSt
	}
	return f.vc.pre
}

func (e *SpecEnv) evalTerm(x SExpr) (t Term, err error) {
	defer func() {
		if r := recover(); r != nil {
			if se, ok := r.(specErr); ok {
				err = fmt.Errorf("%s", se.msg)
				return
			}
			panic(r)
		}
	}()
	v := e.Eval(x)
	return e.term(v), nil
}

func (vc *VC) specError(cl Clause, err error) {
	vc.addObl(&Obligation{Name: fmt.Sprintf("spec-error:%s:%d", shortFile(cl.File), cl.Line), Kind: "spec-error", Tags: cl.Tags, Goal: False, Guard: True,
		Src: fmt.Sprintf("contract clause cannot be evaluated: %v  [%s]", err, cl.Src), Where: fmt.Sprintf("%s:%d", cl.File, cl.Line)})
}

func shortFile(p string) string {
	if k := strings.LastIndex(p, "/"); k >= 0 {
		return p[k+1:]
	}
	return p
}

func (f *Frame) assertClause(cl Clause, name, kind string, st *State, guard Term, at *ssa.BasicBlock, atI ssa.Instruction) {
	vc := f.vc
	if cl.AssumeOnly {
		return
	}
	if ae, ok := cl.Expr.(autoExpr); ok {
		vc.addObl(&Obligation{Name: name, Kind: kind, Tags: cl.Tags, Goal: ae.f(f), Guard: guard, Src: cl.Src, Where: f.posString(blockPos(at))})
		return
	}
	env := f.specEnv(st, at, atI)
	vc.addGoals(env, cl, name, kind, guard, "", fmt.Sprintf("%s:%d", shortFile(cl.File), cl.Line))
}

func (f *Frame) assumeClause(cl Clause, st *State, guard Term, at *ssa.BasicBlock, atI ssa.Instruction) {
	vc := f.vc
	if ae, ok := cl.Expr.(autoExpr); ok {
		vc.assume(Implies(guard, ae.f(f)), "auto invariant")
		return
	}
	env := f.specEnv(st, at, atI)
	t, err := env.evalBool(cl.Expr)
	if err != nil {
		vc.specError(cl, err)
		return
	}
	if cl.AssumeOnly {
		vc.assume(Implies(guard, t), "ASSUMED at loop head: "+cl.Src)
		note := "loop-head assumption in " + f.fn.Name() + ": " + cl.Src
		seen := false
		for _, n := range vc.trustNotes {
			if n == note {
				seen = true
			}
		}
		if !seen {
			vc.trustNotes = append(vc.trustNotes, note)
		}
		return
	}
	vc.assume(Implies(guard, t), cl.Kind+" "+cl.Src)
}

// ---------------------------------------------------------------------------

func (f *Frame) callArgs(c *ssa.CallCommon) []Val {
	var as []Val
	if c.IsInvoke() {
		as = append(as, f.val(c.Value))
	}
	for _, a := range c.Args {
		as = append(as, f.val(a))
	}
	return as
}

var noReturnFuncs = map[string]bool{
	"os.Exit": true, "log.Fatal": true, "log.Fatalf": true, "log.Fatalln": true, "log.Panic": true, "log.Panicf": true,
	"(*log.Logger).Fatal": true, "(*log.Logger).Fatalf": true, "(*log.Logger).Fatalln": true, "(*log.Logger).Panicf": true,
	"runtime.Goexit": true,
}

func (f *Frame) noReturn(c *ssa.CallCommon) bool {
	if fn := c.StaticCallee(); fn != nil {
		return noReturnFuncs[fn.String()]
	}
	return false
}

func calleeKey(c *ssa.CallCommon, fv Val) (key string, fn *ssa.Function) {
	if c.IsInvoke() {
		return c.Method.FullName(), nil
	}
	if sf := c.StaticCallee(); sf != nil {
		return sf.String(), sf
	}
	if fv.Fn != nil {
		sf := fv.Fn.(*ssa.Function)
		return sf.String(), sf
	}
	return "", nil
}

func (f *Frame) inliningDepth(fn *ssa.Function) (depth int, recursive bool) {
	for fr := f; fr != nil; fr = fr.parent {
		depth++
		if fr.fn == fn {
			recursive = true
		}
	}
	return
}

func (f *Frame) call(in ssa.Instruction, c *ssa.CallCommon, o *blockOut, resT types.Type) Val {
	if b, ok := c.Value.(*ssa.Builtin); ok {
		return f.builtin(in, b, c, o, resT)
	}
	var fv Val
	if !c.IsInvoke() {
		fv = f.val(c.Value)
	}
	args := f.callArgs(c)
	return f.callWith(in, c, fv, args, o, resT)
}

func (f *Frame) callWith(in ssa.Instruction, c *ssa.CallCommon, fv Val, args []Val, o *blockOut, resT types.Type) Val {
	vc := f.vc
	key, fn := calleeKey(c, fv)
	ordName := f.callOrd[in]
	if ordName == "" {
		ordName = calleeShortName(c)
	}
	if f.depth > 0 {
		ordName = f.fn.Name() + "/" + ordName
	}
	// receiver nil check for invoke
	if c.IsInvoke() {
		f.safety("nil", in, Ne(args[0].Tag, IntLit(0)), o.guard, "method call on nil interface: "+c.Method.Name())
	}
	if !c.IsInvoke() && fn == nil {
		// call of a function value: nil check
		if fv.K == KFunc && fv.Fn == nil {
			f.safety("nil", in, Ne(fv.T, IntLit(0)), o.guard, "call of nil function value")
		}
	}
	// call-site clauses of the enclosing contract (asserts before the call)
	f.callSiteClauses(in, c, args, o, "asserts", ordName, nil)
	var res Val
	wasInlined := false
	if key == "" && !c.IsInvoke() && fv.SubOf != "" {
		// call of a function value stored in a struct field: "field:<pkg>.<Type>.<field>"
		key = "field:" + strings.TrimPrefix(fv.SubOf, modulePath+"/")
	}
	con := vc.eng.ct.ByKey[key]
	if len(args) > 0 && args[0].SubOf != "" {
		// a contract may be specific to the struct field the receiver is embedded in
		k2 := key + "@" + strings.TrimPrefix(args[0].SubOf, modulePath+"/")
		if c2 := vc.eng.ct.ByKey[k2]; c2 != nil {
			con = c2
			key = k2
		}
	}
	switch {
	case con != nil && !con.Inline:
		vc.usedCon[key] = true
		res = f.applyContract(con, fn, c, args, o, resT, ordName, in)
		if con.NoFrame {
			if len(con.Modifies) == 0 {
				// no frame is specified: everything reachable from the arguments may have changed
				_ = f.unknownCall("noframe:"+key, c, args, o, resT)
			} else {
				vc.trustNotes = append(vc.trustNotes, "frame of "+key+" (noframe with a modifies list) is assumed at its call sites, not checked against its body")
			}
		}
	case fn != nil && fn.Blocks != nil && f.canInline(fn):
		vc.inlined[key]++
		wasInlined = true
		res = f.inline(fn, args, fv.Binds, o, in, con)
	default:
		if m := vc.eng.model(key); m != nil {
			res = m(f, in, args, o, resT)
		} else {
			res = f.unknownCall(key, c, args, o, resT)
		}
	}
	_ = wasInlined
	f.callSiteClauses(in, c, args, o, "assumes", ordName, &res)
	return res
}

func (f *Frame) canInline(fn *ssa.Function) bool {
	depth, rec := f.inliningDepth(fn)
	if rec || depth > 8 {
		return false
	}
	if !f.vc.eng.inRepo(fn) && fn.Synthetic == "" {
		return false
	}
	if len(fn.Blocks) > 60 && fn.Synthetic == "" && fn.Parent() == nil {
		return false
	}
	return true
}

func (f *Frame) callSiteClauses(in ssa.Instruction, c *ssa.CallCommon, args []Val, o *blockOut, kind string, ordName string, res *Val) {
	if f.con == nil {
		return
	}
	short := calleeShortName(c)
	ord := -2
	if s := f.callOrd[in]; s != "" {
		if k := strings.LastIndex(s, "#"); k >= 0 {
			fmt.Sscanf(s[k+1:], "%d", &ord)
		}
	}
	n := 0
	for _, cl := range f.con.CallCl {
		if cl.Kind != kind || (cl.Callee != short && cl.Callee != calleeQualifiedName(c)) || (cl.CallOrd != -1 && cl.CallOrd != ord) {
			continue
		}
		f.vc.usedCallCl[fmt.Sprintf("%s:%d", cl.File, cl.Line)] = true
		env := f.specEnv(o.st, in.Block(), in)
		for i, a := range args {
			env.vars[fmt.Sprintf("arg%d", i)] = a
		}
		if res != nil {
			// the call's results are visible to "assumes" clauses
			switch {
			case res.K == KTuple:
				for i, r := range res.Fs {
					env.vars[fmt.Sprintf("result%d", i)] = r
				}
			case res.K != KUnit:
				env.vars["result"] = *res
				env.vars["result0"] = *res
			}
		}
		label := cl.Label
		if label == "" {
			label = fmt.Sprint(n)
		}
		n++
		if kind == "asserts" {
			f.vc.addGoals(env, cl, fmt.Sprintf("call:%s:asserts[%s]", ordName, label), "callsite", o.guard, "", f.posString(in.Pos()))
		} else {
			t, err := env.evalBool(cl.Expr)
			if err != nil {
				f.vc.specError(cl, err)
				continue
			}
			f.vc.assume(Implies(o.guard, t), "call-site assumes "+cl.Src)
			f.vc.trustNotes = append(f.vc.trustNotes, fmt.Sprintf("call-site assumption in %s at %s: %s", f.fn.Name(), ordName, cl.Src))
		}
	}
}

// inline executes the callee's body in place.
func (f *Frame) inline(fn *ssa.Function, args []Val, binds []Val, o *blockOut, in ssa.Instruction, con *Contract) Val {
	vc := f.vc
	ch := newFrame(vc, fn, f)
	ch.con = con
	ch.params = args
	ch.binds = binds
	ch.preSt = o.st.clone()
	ch.initMaps()
	ch.run(o.st, o.guard)
	f.entrySt = o.st
	if len(ch.exits) == 0 {
		// never returns (panics on all paths)
		o.guard = False
		return vc.zeroVal(fn.Signature.Results())
	}
	var es []inEdge
	for _, e := range ch.exits {
		es = append(es, inEdge{guard: e.guard, st: e.st})
	}
	nst := vc.mergeStates(es)
	*o.st = *nst
	gs := make([]Term, len(es))
	for i, e := range es {
		gs[i] = e.guard
	}
	if len(gs) == 1 {
		o.guard = gs[0]
	} else {
		ng := vc.freshBool("g.ret")
		vc.assumeRaw(Eq(ng, Or(gs...)))
		o.guard = ng
	}
	// results
	nres := fn.Signature.Results().Len()
	var rs []Val
	for i := 0; i < nres; i++ {
		var acc Val
		for j, e := range ch.exits {
			v := e.results[i]
			if j == 0 {
				acc = v
			} else {
				acc = vc.iteVal(e.guard, v, acc)
			}
		}
		rs = append(rs, acc)
	}
	switch nres {
	case 0:
		return Val{K: KUnit}
	case 1:
		return rs[0]
	}
	return Val{K: KTuple, Fs: rs, Typ: fn.Signature.Results()}
}

func resultVals(vc *VC, sig *types.Signature, hint string) []Val {
	var rs []Val
	for i := 0; i < sig.Results().Len(); i++ {
		rs = append(rs, vc.freshVal(sig.Results().At(i).Type(), fmt.Sprintf("%s.r%d", hint, i)))
	}
	return rs
}

func packResults(rs []Val, sig *types.Signature) Val {
	switch len(rs) {
	case 0:
		return Val{K: KUnit}
	case 1:
		return rs[0]
	}
	return Val{K: KTuple, Fs: rs, Typ: sig.Results()}
}

func bindResultNames(vars map[string]Val, sig *types.Signature, rs []Val) {
	for i, r := range rs {
		vars[fmt.Sprintf("result%d", i)] = r
		if n := sig.Results().At(i).Name(); n != "" && n != "_" {
			vars[n] = r
		}
	}
	if len(rs) == 1 {
		vars["result"] = rs[0]
	}
}

func (f *Frame) contractParamNames(con *Contract, fn *ssa.Function, c *ssa.CallCommon, nargs int) []string {
	if len(con.ParamNames) > 0 {
		return con.ParamNames
	}
	var ns []string
	if fn != nil {
		for _, p := range fn.Params {
			ns = append(ns, p.Name())
		}
	}
	for len(ns) < nargs {
		ns = append(ns, fmt.Sprintf("arg%d", len(ns)))
	}
	return ns
}

func (f *Frame) applyContract(con *Contract, fn *ssa.Function, c *ssa.CallCommon, args []Val, o *blockOut, resT types.Type, ordName string, in ssa.Instruction) Val {
	vc := f.vc
	sig := c.Signature()
	names := f.contractParamNames(con, fn, c, len(args))
	vars := map[string]Val{}
	for i, a := range args {
		if i < len(names) {
			vars[names[i]] = a
		}
		vars[fmt.Sprintf("arg%d", i)] = a
	}
	var pkg *types.Package
	if fn != nil && fn.Pkg != nil {
		pkg = fn.Pkg.Pkg
	} else {
		pkg = vc.eng.pkgByPath(con.PkgPath)
	}
	pre := o.st.clone()
	env := &SpecEnv{vc: vc, vars: vars, cur: o.st, old: pre, pkg: pkg}
	for i, cl := range con.Requires {
		vc.addGoals(env, cl, fmt.Sprintf("call:%s:requires[%s]", ordName, clauseLabel(cl, i)), "requires", o.guard, "requires (of "+shortFunc(con.Key)+") ", f.posString(in.Pos()))
	}
	// havoc
	for i, m := range con.Modifies {
		if err := f.havocLoc(env, m, o.st); err != nil {
			vc.specError(Clause{File: con.File, Line: con.Line, Src: "modifies " + con.ModifiesSrc[i]}, err)
		}
	}
	for _, m := range con.GMod {
		if err := f.havocLoc(env, m, o.st); err != nil {
			vc.specError(Clause{File: con.File, Line: con.Line, Src: "gmodifies " + specString(m)}, err)
		}
	}
	rs := resultVals(vc, sig, "ret."+calleeShortName(c))
	post := &SpecEnv{vc: vc, vars: map[string]Val{}, cur: o.st, old: pre, pkg: pkg}
	for k, v := range vars {
		post.vars[k] = v
	}
	bindResultNames(post.vars, sig, rs)
	for _, cl := range con.Ensures {
		if cl.Local {
			continue
		}
		t, err := post.evalBool(cl.Expr)
		if err != nil {
			vc.specError(cl, err)
			continue
		}
		vc.assume(Implies(o.guard, t), "ensures of "+con.Key+": "+cl.Src)
	}
	for _, cl := range con.GEns {
		t, err := post.evalBool(cl.Expr)
		if err != nil {
			vc.specError(cl, err)
			continue
		}
		vc.assume(Implies(o.guard, t), "ghost event of "+con.Key+": "+cl.Src)
	}
	return packResults(rs, sig)
}

// havocLoc havocs the location(s) denoted by a modifies expression.
func (f *Frame) havocLoc(env *SpecEnv, m SExpr, st *State) (err error) {
	defer func() {
		if r := recover(); r != nil {
			if se, ok := r.(specErr); ok {
				err = fmt.Errorf("%s", se.msg)
				return
			}
			panic(r)
		}
	}()
	locs := env.locations(m)
	for _, l := range locs {
		env.vc.havoc(st, l)
	}
	return nil
}

type location struct {
	name  string
	sort  Sort
	idx   []Term // nil = whole array / ghost global
	whole bool
}

func (vc *VC) havoc(st *State, l location) {
	cur := vc.heapGet(st, l.name, l.sort)
	if l.whole || len(l.idx) == 0 {
		vc.heapSet(st, l.name, vc.freshConst(smtName(l.name)+".hv", l.sort))
		return
	}
	es := elemSort(l.sort)
	if len(l.idx) == 1 {
		fv := vc.freshConst(smtName(l.name)+".hvx", es)
		vc.heapSet(st, l.name, vc.nameTerm(Store(cur, l.idx[0], fv), smtName(l.name)))
		return
	}
	fv := vc.freshConst(smtName(l.name)+".hvx", elemSort(es))
	vc.heapSet(st, l.name, vc.nameTerm(Store(cur, l.idx[0], Store(Select(cur, l.idx[0]), l.idx[1], fv)), smtName(l.name)))
}

// objectLocs lists all heap locations making up the struct object *p.
func (vc *VC) objectLocs(p Val, t types.Type) []location {
	var out []location
	s, ok := structOf(t)
	if !ok {
		for _, l := range leavesOf(t) {
			name, sort, idx := vc.leafArr(p, t, l)
			out = append(out, location{name: name, sort: sort, idx: idx})
		}
		return out
	}
	skey := typeKey(t)
	external := !strings.HasPrefix(skey, modulePath)
	for i := 0; i < s.NumFields(); i++ {
		if external && !s.Field(i).Exported() {
			// unexported fields of library types are never read by repository code
			continue
		}
		fa := vc.fieldAddr(p, s, skey, i)
		ft := s.Field(i).Type()
		if kindOf(ft) == KArray {
			continue
		}
		out = append(out, vc.objectLocs(fa, ft)...)
	}
	return out
}

func (e *SpecEnv) locations(m SExpr) []location {
	vc := e.vc
	switch n := m.(type) {
	case SIdent:
		if g, ok := vc.eng.ct.Ghosts[n.Name]; ok {
			return []location{{name: "G." + n.Name, sort: g.Sort, whole: true}}
		}
	case SHeapArr:
		return e.heapArrLocs(n.Path)
	case SSel:
		x := e.Eval(n.X)
		if x.K != KPtr {
			// a local struct variable that lives in memory: use its address
			if id, ok := n.X.(SIdent); ok && e.f != nil {
				if v, ok := e.f.lookupAddr(id.Name, e.at); ok && v.K == KPtr {
					x = v
				}
			}
		}
		if x.K != KPtr {
			e.fail("modifies: %s is not a pointer", specString(n.X))
		}
		et := derefType(x.Typ)
		s, ok := structOf(et)
		if !ok {
			e.fail("modifies: %s is not a struct pointer", specString(n.X))
		}
		skey := typeKey(et)
		if gf, ok := vc.eng.ct.GhostFields[skey+"."+n.F]; ok {
			return []location{{name: "G." + skey + "." + n.F, sort: ArrSort(SInt, gf.Sort), idx: []Term{x.T}}}
		}
		i := findField(s, n.F)
		if i < 0 {
			e.fail("modifies: no field %s in %s", n.F, skey)
		}
		fa := vc.fieldAddr(x, s, skey, i)
		return vc.objectLocs(fa, s.Field(i).Type())
	case SCall:
		if ms, ok := vc.eng.ct.ModSets[n.Fn]; ok {
			if len(ms.Params) != len(n.Args) {
				e.fail("modset %s expects %d arguments", n.Fn, len(ms.Params))
			}
			vars := map[string]Val{}
			for i, a := range n.Args {
				vars[ms.Params[i]] = e.Eval(a)
			}
			ne := *e
			ne.vars = vars
			ne.f = nil
			if pk := vc.eng.pkgByPath(ms.PkgPath); pk != nil {
				ne.pkg = pk
			}
			var out []location
			for _, it := range ms.Items {
				out = append(out, ne.locations(it)...)
			}
			return out
		}
		if p, ok := vc.eng.ct.Preds[n.Fn]; ok {
			// a pred used as a location macro: expand and take the locations of its body
			if len(p.Params) != len(n.Args) {
				e.fail("pred %s expects %d arguments", n.Fn, len(p.Params))
			}
			vars := map[string]Val{}
			for i, a := range n.Args {
				vars[p.Params[i]] = e.Eval(a)
			}
			ne := *e
			ne.vars = vars
			ne.f = nil
			if pk := vc.eng.pkgByPath(p.PkgPath); pk != nil {
				ne.pkg = pk
			}
			return ne.locations(p.Body)
		}
		switch n.Fn {
		case "all":
			x := e.Eval(n.Args[0])
			if x.K != KPtr {
				e.fail("modifies all(): not a pointer")
			}
			return vc.objectLocs(x, derefType(x.Typ))
		case "pointee":
			// pointee(i): the object an interface value points to (its dynamic type must be known here)
			x := e.Eval(n.Args[0])
			if x.K == KIface {
				if tn, ok := litValue(x.Tag); ok {
					if t, ok := vc.tagTypes[int(tn)]; ok {
						if pt, ok := t.Underlying().(*types.Pointer); ok {
							return vc.objectLocs(Val{K: KPtr, T: x.T, Typ: types.NewPointer(pt.Elem())}, pt.Elem())
						}
					}
				}
				e.fail("modifies pointee(): dynamic type of the interface value is not statically known")
			}
			if x.K == KPtr {
				return vc.objectLocs(x, derefType(x.Typ))
			}
			e.fail("modifies pointee(): not an interface or pointer")
		case "deref":
			x := e.Eval(n.Args[0])
			return vc.objectLocs(x, derefType(x.Typ))
		case "mapof":
			mv := e.Eval(n.Args[0])
			if mv.K != KMap {
				e.fail("modifies mapof(): not a map")
			}
			mt := mv.Typ.Underlying().(*types.Map)
			ks := mapKeySort(mt)
			out := []location{{name: vc.mapDomArrName(mv.Typ), sort: ArrSort(SInt, ArrSort(ks, SBool)), idx: []Term{mv.T}}}
			if _, isStruct := structOf(mt.Elem()); !isStruct {
				for _, l := range leavesOf(mt.Elem()) {
					out = append(out, location{name: "MapVal." + typeKey(mv.Typ) + l.suffix, sort: ArrSort(SInt, ArrSort(ks, l.sort)), idx: []Term{mv.T}})
				}
			}
			return out
		case "elems":
			sv := e.Eval(n.Args[0])
			if sv.K != KSlice {
				e.fail("modifies elems(): not a slice")
			}
			et := sv.Typ.Underlying().(*types.Slice).Elem()
			return vc.elemLocs(sv.T, et)
		}
	}
	e.fail("unsupported modifies expression %s", specString(m))
	return nil
}

func (vc *VC) elemLocs(arr Term, et types.Type) []location {
	var out []location
	if s, ok := structOf(et); ok {
		// element objects: whole field arrays (coarse)
		skey := typeKey(et)
		for i := 0; i < s.NumFields(); i++ {
			ft := s.Field(i).Type()
			if _, isS := structOf(ft); isS || kindOf(ft) == KArray {
				continue
			}
			for _, l := range leavesOf(ft) {
				out = append(out, location{name: fieldArrName(skey, s.Field(i).Name()) + l.suffix, sort: ArrSort(SInt, l.sort), whole: true})
			}
		}
		return out
	}
	if kindOf(et) == KArray {
		return nil
	}
	for _, l := range leavesOf(et) {
		out = append(out, location{name: "Elem." + typeKey(et) + l.suffix, sort: ArrSort(SInt, ArrSort(SInt, l.sort)), idx: []Term{arr}})
	}
	return out
}

func (e *SpecEnv) heapArrLocs(path string) []location {
	parts := strings.Split(path, ".")
	for cut := len(parts) - 1; cut >= 1; cut-- {
		t := e.lookupType(strings.Join(parts[:cut], "."))
		if t == nil {
			continue
		}
		s, ok := structOf(t)
		if !ok {
			continue
		}
		skey := typeKey(t)
		fname := parts[cut]
		if gf, ok := e.vc.eng.ct.GhostFields[skey+"."+fname]; ok {
			return []location{{name: "G." + skey + "." + fname, sort: ArrSort(SInt, gf.Sort), whole: true}}
		}
		i := findField(s, fname)
		if i < 0 {
			e.fail("no field %s", path)
		}
		var out []location
		for _, l := range leavesOf(s.Field(i).Type()) {
			out = append(out, location{name: fieldArrName(skey, fname) + l.suffix, sort: ArrSort(SInt, l.sort), whole: true})
		}
		return out
	}
	e.fail("cannot resolve #%s", path)
	return nil
}

// unknownCall abstracts a call without contract or body.
func (f *Frame) unknownCall(key string, c *ssa.CallCommon, args []Val, o *blockOut, resT types.Type) Val {
	vc := f.vc
	if key == "" {
		key = "dynamic:" + c.Value.Type().String()
	}
	vc.abstracted[key]++
	effectFree := vc.eng.effectFree(key)
	if !effectFree {
		for _, a := range args {
			f.havocReachable(a, o.st)
		}
	}
	sig := c.Signature()
	rs := resultVals(vc, sig, "unk."+calleeShortName(c))
	return packResults(rs, sig)
}

// havocReachable havocs the direct pointee of an argument handed to unknown code.
func (f *Frame) havocReachable(a Val, st *State) {
	vc := f.vc
	switch a.K {
	case KPtr:
		et := derefType(a.Typ)
		if et == nil || a.T.S == "0" {
			return
		}
		if len(a.Path) == 0 {
			if kindOf(et) == KArray {
				return
			}
			for _, l := range vc.objectLocs(a, et) {
				vc.havoc(st, l)
			}
		} else {
			for _, l := range leavesOf(et) {
				name, sort, idx := vc.leafArr(a, et, l)
				vc.havoc(st, location{name: name, sort: sort, idx: idx})
			}
		}
	case KIface:
		if bv, ok := vc.boxed[a.T.S]; ok {
			// a slice (or other composite) boxed into an interface
			f.havocReachable(bv, st)
			return
		}
		if n, ok := litValue(a.Tag); ok {
			if t, ok := vc.tagTypes[int(n)]; ok {
				if pt, ok := t.Underlying().(*types.Pointer); ok {
					f.havocReachable(Val{K: KPtr, T: a.T, Typ: types.NewPointer(pt.Elem())}, st)
				}
			}
		}
	case KSlice:
		et := a.Typ.Underlying().(*types.Slice).Elem()
		if kindOf(et) == KInt || kindOf(et) == KStr || kindOf(et) == KBool {
			for _, l := range vc.elemLocs(a.T, et) {
				vc.havoc(st, l)
			}
		}
	case KFunc:
		// a closure handed to unknown code may run: havoc its captured cells
		for _, b := range a.Binds {
			f.havocReachable(b, st)
		}
	}
}

// ---------------------------------------------------------------------------
// defers

func (f *Frame) runDefers(b *ssa.BasicBlock, x *ssa.RunDefers, o *blockOut) {
	vc := f.vc
	sites := append([]*deferSite(nil), f.defers...)
	sort.SliceStable(sites, func(i, j int) bool {
		if sites[i].order != sites[j].order {
			return sites[i].order > sites[j].order
		}
		return sites[i].id > sites[j].id
	})
	for _, ds := range sites {
		armed, ok := o.st.Armed[ds.id]
		if !ok || armed.S == "false" {
			continue
		}
		args, have := f.deferArgs[ds.instr]
		if !have {
			continue
		}
		before := o.st.clone()
		g0 := o.guard
		tmp := &blockOut{st: o.st.clone(), guard: And(g0, armed)}
		c := &ds.instr.Call
		var fv Val
		if !c.IsInvoke() {
			fv = f.val(c.Value)
		}
		if bi, isB := c.Value.(*ssa.Builtin); isB {
			f.builtin(ds.instr, bi, c, tmp, nil)
		} else {
			f.callWith(ds.instr, c, fv, args, tmp, nil)
		}
		if armed.S == "true" {
			*o.st = *tmp.st
			o.guard = tmp.guard
		} else {
			es := []inEdge{{guard: tmp.guard, st: tmp.st}, {guard: And(g0, Not(armed)), st: before}}
			*o.st = *vc.mergeStates(es)
			ng := vc.freshBool("g.defer")
			vc.assumeRaw(Eq(ng, Or(tmp.guard, And(g0, Not(armed)))))
			o.guard = ng
		}
		f.entrySt = o.st
	}
}

// ---------------------------------------------------------------------------
// builtins

func (f *Frame) builtin(in ssa.Instruction, b *ssa.Builtin, c *ssa.CallCommon, o *blockOut, resT types.Type) Val {
	vc := f.vc
	args := make([]Val, len(c.Args))
	for i, a := range c.Args {
		args[i] = f.val(a)
	}
	switch b.Name() {
	case "len":
		a := args[0]
		switch a.K {
		case KSlice:
			return Val{K: KInt, T: a.Len, Typ: types.Typ[types.Int]}
		case KStr:
			return Val{K: KInt, T: vc.strLen(a.T), Typ: types.Typ[types.Int]}
		case KMap:
			return Val{K: KInt, T: vc.mapLen(o.st, a), Typ: types.Typ[types.Int]}
		}
		r := vc.freshVal(types.Typ[types.Int], "len")
		vc.assumeRaw(Le(IntLit(0), r.T))
		return r
	case "cap":
		if args[0].K == KSlice {
			return Val{K: KInt, T: args[0].Cap, Typ: types.Typ[types.Int]}
		}
		r := vc.freshVal(types.Typ[types.Int], "cap")
		vc.assumeRaw(Le(IntLit(0), r.T))
		return r
	case "append":
		return f.appendOp(args, o, c.Args[0].Type())
	case "copy":
		dst, src := args[0], args[1]
		n := vc.freshInt("copy.n")
		var sl Term
		if src.K == KStr {
			sl = vc.strLen(src.T)
		} else {
			sl = src.Len
		}
		vc.assumeRaw(Eq(n, Ite(Lt(dst.Len, sl), dst.Len, sl)))
		if dst.K == KSlice {
			et := dst.Typ.Underlying().(*types.Slice).Elem()
			for _, l := range vc.elemLocs(dst.T, et) {
				vc.havoc(o.st, l)
			}
		}
		return Val{K: KInt, T: n, Typ: types.Typ[types.Int]}
	case "delete":
		m := args[0]
		vc.mapDelete(o.st, m, args[1], c.Args[0].Type().Underlying().(*types.Map))
		return Val{K: KUnit}
	case "print", "println", "close", "clear":
		return Val{K: KUnit}
	case "recover":
		return vc.zeroVal(types.NewInterfaceType(nil, nil))
	case "min", "max":
		acc := args[0]
		for _, a := range args[1:] {
			if b.Name() == "min" {
				acc = Val{K: KInt, T: Ite(Lt(a.T, acc.T), a.T, acc.T), Typ: acc.Typ}
			} else {
				acc = Val{K: KInt, T: Ite(Gt(a.T, acc.T), a.T, acc.T), Typ: acc.Typ}
			}
		}
		return acc
	case "ssa:wrapnilchk":
		f.nonNil(in, args[0], o.guard, "method value of nil receiver")
		return args[0]
	}
	if resT == nil {
		return Val{K: KUnit}
	}
	return vc.freshVal(resT, "builtin."+b.Name())
}

func (f *Frame) appendOp(args []Val, o *blockOut, st0 types.Type) Val {
	vc := f.vc
	s := args[0]
	e := args[1]
	slt, ok := st0.Underlying().(*types.Slice)
	if !ok || e.K != KSlice {
		r := vc.freshVal(st0, "append")
		return r
	}
	et := slt.Elem()
	n := vc.nameTerm(Add(s.Len, e.Len), "append.len")
	need := vc.freshBool("append.grow")
	vc.assumeRaw(Implies(Gt(n, s.Cap), need)) // growth is forced when capacity is exceeded; it is allowed otherwise only if nil
	vc.assumeRaw(Implies(need, Gt(n, s.Cap)))
	narr := vc.newRef("append.arr")
	vc.markAlloc(o.st, narr, nil)
	ncap := vc.freshInt("append.cap")
	vc.assumeRaw(And(Ge(ncap, n), Le(ncap, BigLit("4611686018427387904"))))
	res := Val{K: KSlice, T: Ite(need, narr, s.T), Off: Ite(need, IntLit(0), s.Off), Len: n, Cap: Ite(need, ncap, s.Cap), Typ: st0}
	if _, isStruct := structOf(et); isStruct || kindOf(et) == KArray {
		vc.unsupported("append on slice of structs")
		return res
	}
	st := o.st
	for _, l := range leavesOf(et) {
		name := "Elem." + typeKey(et) + l.suffix
		srt := ArrSort(SInt, ArrSort(SInt, l.sort))
		A := vc.heapGet(st, name, srt)
		A2 := vc.freshConst(smtName(name)+".app", srt)
		i := vc.freshName("q.i")
		r := vc.freshName("q.r")
		iT := Term{i, SInt}
		rT := Term{r, SInt}
		// other backing arrays unchanged
		vc.assumeRaw(Term{fmt.Sprintf("(forall ((%s Int)) (=> (not (= %s %s)) (= (select %s %s) (select %s %s))))", r, r, res.T.S, A2.S, r, A.S, r), SBool})
		_ = rT
		// old elements preserved
		vc.assumeRaw(Term{fmt.Sprintf("(forall ((%s Int)) (=> (and (<= 0 %s) (< %s %s)) (= (select (select %s %s) (+ %s %s)) (select (select %s %s) (+ %s %s)))))",
			i, i, i, s.Len.S, A2.S, res.T.S, res.Off.S, i, A.S, s.T.S, s.Off.S, i), SBool})
		_ = iT
		// appended elements
		if lv, ok := litValue(e.Len); ok && lv <= 4 {
			for k := int64(0); k < lv; k++ {
				vc.assumeRaw(Eq(Select(Select(A2, res.T), Add(res.Off, Add(s.Len, IntLit(k)))), Select(Select(A, e.T), Add(e.Off, IntLit(k)))))
			}
			if l.sort == SInt && l.suffix == "" {
				// ghost content set of the slice value (contents at the time of the last append)
				cur := vc.sliceSetOf(Select(A, s.T), s.Off, s.Len)
				for k := int64(0); k < lv; k++ {
					cur = Store(cur, Select(Select(A, e.T), Add(e.Off, IntLit(k))), True)
				}
				vc.assumeRaw(Eq(vc.sliceSetOf(Select(A2, res.T), res.Off, res.Len), cur))
			}
		} else {
			vc.assumeRaw(Term{fmt.Sprintf("(forall ((%s Int)) (=> (and (<= 0 %s) (< %s %s)) (= (select (select %s %s) (+ %s (+ %s %s))) (select (select %s %s) (+ %s %s)))))",
				i, i, i, e.Len.S, A2.S, res.T.S, res.Off.S, s.Len.S, i, A.S, e.T.S, e.Off.S, i), SBool})
		}
		// in place: cells outside the appended window unchanged
		vc.assumeRaw(Term{fmt.Sprintf("(=> (not %s) (forall ((%s Int)) (=> (or (< %s (+ %s %s)) (>= %s (+ %s %s))) (= (select (select %s %s) %s) (select (select %s %s) %s)))))",
			need.S, i, i, s.Off.S, s.Len.S, i, s.Off.S, n.S, A2.S, s.T.S, i, A.S, s.T.S, i), SBool})
		vc.heapSet(st, name, A2)
	}
	return res
}

// calleeQualifiedName: "Type.Method" for method calls (receiver's named type, pointer and package dropped),
// so that call-site clauses can tell (disk.Cache).Get from (http.Header).Get.
func calleeQualifiedName(c *ssa.CallCommon) string {
	var rt types.Type
	name := ""
	if c.IsInvoke() {
		rt = c.Value.Type()
		name = c.Method.Name()
	} else if fn := c.StaticCallee(); fn != nil && fn.Signature.Recv() != nil {
		rt = fn.Signature.Recv().Type()
		name = fn.Name()
	} else {
		return ""
	}
	if p, ok := rt.(*types.Pointer); ok {
		rt = p.Elem()
	}
	if n, ok := rt.(*types.Named); ok {
		return n.Obj().Name() + "." + name
	}
	return ""
}
