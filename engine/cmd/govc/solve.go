package main

// Solver portfolio: z3-new (5.1.0) first, then z3 4.8.12 and cvc5 1.0.x raced.
// Results are cached by the hash of the query text so that the per-property
// commands of one run share work; a change of /repo changes the query text.

import (
	"context"
	"crypto/sha256"
	"encoding/hex"
	"encoding/json"
	"fmt"
	"os"
	"os/exec"
	"path/filepath"
	"strings"
	"sync"
	"sync/atomic"
	"time"
)

type Verdict struct {
	Status  string  `json:"status"` // unsat | sat | unknown
	Solver  string  `json:"solver"`
	Seconds float64 `json:"seconds"`
	Model   string  `json:"model,omitempty"`
	Output  string  `json:"output,omitempty"`
	Cached  bool    `json:"cached,omitempty"`
}

type solverSpec struct {
	name string
	argv func(file string, timeoutS int) []string
	pre  string // text to prepend
}

var solvers = []solverSpec{
	{"z3-5.1.0", func(f string, t int) []string { return []string{"z3-new", fmt.Sprintf("-T:%d", t), "-smt2", f} }, ""},
	{"z3-4.8.12", func(f string, t int) []string { return []string{"z3", fmt.Sprintf("-T:%d", t), "-smt2", f} }, ""},
	{"cvc5-1.0", func(f string, t int) []string {
		return []string{"cvc5", "--lang", "smt2", fmt.Sprintf("--tlimit=%d", t*1000), "--produce-models", f}
	}, ""},
}

var cacheDir = "/verif/.cache"

// retries of undecided obligations run one at a time
var retryMu sync.Mutex
var scratchDir string
var cacheMu sync.Mutex
var qCounter int64

func initSolve() {
	os.MkdirAll(cacheDir, 0o755)
	d, err := os.MkdirTemp("", "govc-q-")
	if err != nil {
		panic(err)
	}
	scratchDir = d
}

func cleanupSolve() {
	if scratchDir != "" {
		os.RemoveAll(scratchDir)
	}
}

func runOne(ctx context.Context, sp solverSpec, text string, timeoutS int, wantModel bool) Verdict {
	h := sha256.Sum256([]byte(sp.name + text))
	f := filepath.Join(scratchDir, fmt.Sprintf("%s-%d-%s.smt2", hex.EncodeToString(h[:8]), atomic.AddInt64(&qCounter, 1), sp.name))
	body := text
	if wantModel {
		body += "\n(get-model)\n"
	}
	if err := os.WriteFile(f, []byte(body), 0o644); err != nil {
		return Verdict{Status: "unknown", Solver: sp.name, Output: err.Error()}
	}
	defer os.Remove(f)
	argv := sp.argv(f, timeoutS)
	cctx, cancel := context.WithTimeout(ctx, time.Duration(timeoutS+2)*time.Second)
	defer cancel()
	t0 := time.Now()
	cmd := exec.CommandContext(cctx, argv[0], argv[1:]...)
	out, _ := cmd.CombinedOutput()
	dt := time.Since(t0).Seconds()
	s := string(out)
	first := strings.TrimSpace(s)
	if i := strings.IndexByte(first, '\n'); i >= 0 {
		first = strings.TrimSpace(first[:i])
	}
	v := Verdict{Solver: sp.name, Seconds: dt}
	if first != "unsat" && first != "sat" && first != "unknown" && first != "timeout" && strings.Contains(s, "rror") {
		// a malformed query must never count as a proof (errors precede the verdict line)
		if len(s) > 600 {
			s = s[:600]
		}
		return Verdict{Status: "error", Solver: sp.name, Seconds: dt, Output: s}
	}
	switch first {
	case "unsat":
		v.Status = "unsat"
	case "sat":
		v.Status = "sat"
		if i := strings.IndexByte(s, '\n'); i >= 0 {
			v.Model = s[i+1:]
		}
	default:
		v.Status = "unknown"
		if len(s) > 600 {
			s = s[:600]
		}
		v.Output = s
	}
	return v
}

// SolveOther asks the solvers other than `except` (thorough tier: a proof must be
// confirmed by a second, different solver).
func SolveOther(text, except string, timeoutS int) Verdict {
	h := sha256.Sum256([]byte("other:" + except + text))
	key := hex.EncodeToString(h[:])
	cf := filepath.Join(cacheDir, key[:2], key+".json")
	if b, err := os.ReadFile(cf); err == nil {
		var v Verdict
		if json.Unmarshal(b, &v) == nil && (v.Status == "unsat" || v.Status == "sat") {
			v.Cached = true
			return v
		}
	}
	ctx, cancel := context.WithCancel(context.Background())
	defer cancel()
	var others []solverSpec
	for _, sp := range solvers {
		if !strings.HasPrefix(except, sp.name) {
			others = append(others, sp)
		}
	}
	ch := make(chan Verdict, len(others))
	for _, sp := range others {
		sp := sp
		go func() { ch <- runOne(ctx, sp, text, timeoutS, false) }()
	}
	last := Verdict{Status: "unknown"}
	for range others {
		r := <-ch
		if r.Status == "unsat" || r.Status == "sat" {
			last = r
			break
		}
		last = r
	}
	if last.Status == "unsat" || last.Status == "sat" {
		cacheMu.Lock()
		os.MkdirAll(filepath.Dir(cf), 0o755)
		b, _ := json.Marshal(last)
		os.WriteFile(cf, b, 0o644)
		cacheMu.Unlock()
	}
	return last
}

// Solve decides one query. quickT is the first-stage timeout, slowT the
// portfolio timeout.
func Solve(text string, quickT, slowT int, wantModel bool) Verdict {
	h := sha256.Sum256([]byte(text))
	key := hex.EncodeToString(h[:])
	cf := filepath.Join(cacheDir, key[:2], key+".json")
	if b, err := os.ReadFile(cf); err == nil {
		var v Verdict
		if json.Unmarshal(b, &v) == nil && (v.Status == "unsat" || v.Status == "sat" || (v.Status == "unknown" && slowT == 0)) {
			v.Cached = true
			return v
		}
	}
	ctx := context.Background()
	v := runOne(ctx, solvers[0], text, quickT, wantModel)
	if v.Status == "error" {
		return v
	}
	if v.Status == "unknown" && slowT == 0 {
		// cover checks: "not refuted within the short timeout" is the expected answer; remember it
		cacheMu.Lock()
		os.MkdirAll(filepath.Dir(cf), 0o755)
		b, _ := json.Marshal(v)
		os.WriteFile(cf, b, 0o644)
		cacheMu.Unlock()
		return v
	}
	if v.Status == "unknown" {
		// race all three with the long timeout
		rctx, cancel := context.WithCancel(ctx)
		ch := make(chan Verdict, len(solvers))
		for _, sp := range solvers {
			sp := sp
			go func() { ch <- runOne(rctx, sp, text, slowT, wantModel) }()
		}
		var last Verdict
		for i := 0; i < len(solvers); i++ {
			r := <-ch
			if r.Status == "unsat" || r.Status == "sat" {
				last = r
				break
			}
			if last.Status == "" || last.Output == "" {
				last = r
			}
		}
		cancel()
		last.Seconds += v.Seconds
		v = last
		if v.Status != "unsat" && v.Status != "sat" && v.Status != "error" {
			// nobody decided it within the portfolio timeout, possibly because the machine is loaded:
			// one more attempt, alone and with three times the budget, before it is reported as undecided
			retryMu.Lock()
			r := runOne(ctx, solvers[0], text, 3*slowT, wantModel)
			retryMu.Unlock()
			r.Seconds += v.Seconds
			if r.Status == "unsat" || r.Status == "sat" {
				v = r
			}
		}
	}
	if v.Status == "unsat" || v.Status == "sat" {
		cacheMu.Lock()
		os.MkdirAll(filepath.Dir(cf), 0o755)
		b, _ := json.Marshal(v)
		os.WriteFile(cf, b, 0o644)
		cacheMu.Unlock()
	}
	return v
}
