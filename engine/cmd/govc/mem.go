package main

import (
	"fmt"
	"go/types"
	"sort"
)

// ---------------------------------------------------------------------------
// heap array naming

func (vc *VC) heapGet(st *State, name string, sort Sort) Term {
	if t, ok := st.H[name]; ok {
		return t
	}
	t := vc.decls.Const(smtName(name)+"@0", sort)
	st.H[name] = t
	vc.keySort[name] = sort
	return t
}

func (vc *VC) heapInit(name string, sort Sort) Term {
	vc.keySort[name] = sort
	return vc.decls.Const(smtName(name)+"@0", sort)
}

func (vc *VC) heapSet(st *State, name string, t Term) {
	st.H[name] = t
	vc.keySort[name] = t.Sort
	vc.written[name] = true
}

// leaf describes one SMT array that stores part of a Go value.
type leaf struct {
	suffix string
	sort   Sort
	get    func(v Val) Term
}

// leavesOf lists the scalar components of a non-struct Go type.
func leavesOf(t types.Type) []leaf {
	switch kindOf(t) {
	case KBool:
		return []leaf{{"", SBool, func(v Val) Term { return v.T }}}
	case KStr:
		return []leaf{{"", SStr, func(v Val) Term { return v.T }}}
	case KIface:
		return []leaf{{".tag", SInt, func(v Val) Term { return v.Tag }}, {".val", SInt, func(v Val) Term { return v.T }}}
	case KSlice:
		return []leaf{{".arr", SInt, func(v Val) Term { return v.T }}, {".off", SInt, func(v Val) Term { return v.Off }},
			{".len", SInt, func(v Val) Term { return v.Len }}, {".cap", SInt, func(v Val) Term { return v.Cap }}}
	default:
		return []leaf{{"", SInt, func(v Val) Term { return v.T }}}
	}
}

func buildFromLeaves(t types.Type, ts []Term) Val {
	switch kindOf(t) {
	case KIface:
		return Val{K: KIface, Tag: ts[0], T: ts[1], Typ: t}
	case KSlice:
		return Val{K: KSlice, T: ts[0], Off: ts[1], Len: ts[2], Cap: ts[3], Typ: t}
	default:
		return Val{K: kindOf(t), T: ts[0], Typ: t}
	}
}

func structOf(t types.Type) (*types.Struct, bool) {
	s, ok := t.Underlying().(*types.Struct)
	return s, ok
}

func fieldArrName(skey string, fname string) string { return "H." + skey + "." + fname }

// subObj returns the reference of a struct-typed (or array-typed) field
// embedded in the object root.
func (vc *VC) subObj(root Term, skey, fname string) Term {
	fn := smtName("sub." + skey + "." + fname)
	vc.decls.Fun(fn, []Sort{SInt}, SInt)
	inv := smtName("subinv." + skey + "." + fname)
	vc.decls.Fun(inv, []Sort{SInt}, SInt)
	t := App(SInt, fn, root)
	k := "subfact:" + t.S
	if !vc.facts[k] {
		vc.facts[k] = true
		vc.assume(And(Eq(App(SInt, inv, t), root), Implies(Ne(root, IntLit(0)), Ne(t, IntLit(0)))), "sub-object injectivity")
	}
	return t
}

func (vc *VC) elemObj(arr, idx Term, ekey string) Term {
	fn := smtName("elemobj." + ekey)
	vc.decls.Fun(fn, []Sort{SInt, SInt}, SInt)
	t := App(SInt, fn, arr, idx)
	k := "elemfact:" + t.S
	if !vc.facts[k] {
		vc.facts[k] = true
		a := smtName("elemobj.arr." + ekey)
		i := smtName("elemobj.idx." + ekey)
		vc.decls.Fun(a, []Sort{SInt}, SInt)
		vc.decls.Fun(i, []Sort{SInt}, SInt)
		vc.assume(And(Eq(App(SInt, a, t), arr), Eq(App(SInt, i, t), idx), Ne(t, IntLit(0))), "element object injectivity")
	}
	return t
}

// fieldAddr computes &p.f.
func (vc *VC) fieldAddr(p Val, st *types.Struct, skey string, field int) Val {
	f := st.Field(field)
	ft := f.Type()
	res := Val{K: KPtr, Typ: types.NewPointer(ft)}
	if p.Local != "" {
		// field of a non-escaping local struct variable: private storage
		res.T = p.T
		res.Local = p.Local + "." + f.Name()
		return res
	}
	if len(p.Path) != 0 {
		vc.unsupported("field address of interior pointer")
		res.T = vc.freshInt("badaddr")
		return res
	}
	switch kindOf(ft) {
	case KStruct, KArray:
		res.T = vc.subObj(p.T, skey, f.Name())
		res.SubOf = skey + "." + f.Name()
	default:
		res.T = p.T
		res.Path = []PathEl{{Field: field, Struct: st, SKey: skey}}
	}
	return res
}

// load reads the value of Go type t stored at address p.
func (vc *VC) load(st *State, p Val, t types.Type) Val {
	if s, ok := structOf(t); ok {
		if len(p.Path) != 0 {
			vc.unsupported("struct load through interior pointer")
			return vc.freshVal(t, "badload")
		}
		skey := typeKey(t)
		v := Val{K: KStruct, Typ: t}
		for i := 0; i < s.NumFields(); i++ {
			fa := vc.fieldAddr(p, s, skey, i)
			v.Fs = append(v.Fs, vc.load(st, fa, s.Field(i).Type()))
		}
		return v
	}
	if a, ok := t.Underlying().(*types.Array); ok {
		// array value: represented by an opaque reference to its storage (copy semantics not modelled)
		_ = a
		return Val{K: KArray, T: p.T, Typ: t}
	}
	ls := leavesOf(t)
	ts := make([]Term, len(ls))
	for i, l := range ls {
		ts[i] = vc.loadLeaf(st, p, t, l)
	}
	r := buildFromLeaves(t, ts)
	if r.K == KFunc && len(p.Path) == 1 && !p.Path[0].IsIdx {
		// a function value read from a struct field: contracts may be attached to the field
		r.SubOf = p.Path[0].SKey + "." + p.Path[0].Struct.Field(p.Path[0].Field).Name()
	}
	return r
}

func (vc *VC) leafArr(p Val, t types.Type, l leaf) (name string, sort Sort, idx []Term) {
	switch {
	case p.Local != "":
		return p.Local + l.suffix, l.sort, nil
	case len(p.Path) == 0:
		return "Cell." + typeKey(t) + l.suffix, ArrSort(SInt, l.sort), []Term{p.T}
	case p.Path[0].IsIdx:
		return "Elem." + typeKey(t) + l.suffix, ArrSort(SInt, ArrSort(SInt, l.sort)), []Term{p.T, p.Path[0].Idx}
	default:
		pe := p.Path[0]
		return fieldArrName(pe.SKey, pe.Struct.Field(pe.Field).Name()) + l.suffix, ArrSort(SInt, l.sort), []Term{p.T}
	}
}

func (vc *VC) loadLeaf(st *State, p Val, t types.Type, l leaf) Term {
	name, sort, idx := vc.leafArr(p, t, l)
	arr := vc.heapGet(st, name, sort)
	for _, i := range idx {
		arr = Select(arr, i)
	}
	return arr
}

func (vc *VC) store(st *State, p Val, t types.Type, v Val) {
	if v.K == KFunc && len(v.Binds) > 0 {
		// a closure stored in memory may be run by anybody later: its captured cells are shared
		vc.markShared(v)
	}
	if s, ok := structOf(t); ok {
		if len(p.Path) != 0 {
			vc.unsupported("struct store through interior pointer")
			return
		}
		skey := typeKey(t)
		for i := 0; i < s.NumFields(); i++ {
			fa := vc.fieldAddr(p, s, skey, i)
			var fv Val
			if i < len(v.Fs) {
				fv = v.Fs[i]
			} else {
				fv = vc.zeroVal(s.Field(i).Type())
			}
			vc.store(st, fa, s.Field(i).Type(), fv)
		}
		return
	}
	if at, ok := t.Underlying().(*types.Array); ok {
		if at.Len() == 0 {
			return // zero-length marker arrays (protobuf DoNotCompare etc.) hold nothing
		}
		et := at.Elem()
		if _, isS := structOf(et); !isS && kindOf(et) != KArray && len(p.Path) == 0 && v.K == KArray && v.T.S != "" {
			// copy the whole element storage of the source array value
			for _, l := range leavesOf(et) {
				name := "Elem." + typeKey(et) + l.suffix
				srt := ArrSort(SInt, ArrSort(SInt, l.sort))
				A := vc.heapGet(st, name, srt)
				vc.heapSet(st, name, vc.nameTerm(Store(A, p.T, Select(A, v.T)), smtName(name)))
			}
			return
		}
		vc.unsupported("array value store")
		return
	}
	for _, l := range leavesOf(t) {
		name, sort, idx := vc.leafArr(p, t, l)
		arr := vc.heapGet(st, name, sort)
		val := l.get(v)
		if val.IsZero() {
			val = vc.zeroOfSort(l.sort)
		}
		var nt Term
		if len(idx) == 0 {
			vc.heapSet(st, name, val)
			continue
		} else if len(idx) == 1 {
			nt = Store(arr, idx[0], val)
		} else {
			nt = Store(arr, idx[0], Store(Select(arr, idx[0]), idx[1], val))
		}
		vc.heapSet(st, name, vc.nameTerm(nt, smtName(name)))
	}
}

// nameTerm introduces a constant for a (possibly large) term to keep queries small.
func (vc *VC) nameTerm(t Term, hint string) Term {
	c := vc.freshConst(hint, t.Sort)
	vc.assumeRaw(Eq(c, t))
	return c
}

func (vc *VC) zeroOfSort(s Sort) Term {
	switch s {
	case SBool:
		return False
	case SStr:
		return vc.strLit("")
	}
	return IntLit(0)
}

func (vc *VC) zeroVal(t types.Type) Val {
	switch kindOf(t) {
	case KBool:
		return Val{K: KBool, T: False, Typ: t}
	case KStr:
		return Val{K: KStr, T: vc.strLit(""), Typ: t}
	case KStruct:
		s, _ := structOf(t)
		v := Val{K: KStruct, Typ: t}
		for i := 0; i < s.NumFields(); i++ {
			v.Fs = append(v.Fs, vc.zeroVal(s.Field(i).Type()))
		}
		return v
	case KSlice:
		z := IntLit(0)
		return Val{K: KSlice, T: z, Off: z, Len: z, Cap: z, Typ: t}
	case KIface:
		return Val{K: KIface, Tag: IntLit(0), T: IntLit(0), Typ: t}
	case KTuple:
		tt := t.(*types.Tuple)
		v := Val{K: KTuple, Typ: t}
		for i := 0; i < tt.Len(); i++ {
			v.Fs = append(v.Fs, vc.zeroVal(tt.At(i).Type()))
		}
		return v
	case KArray:
		return Val{K: KArray, T: vc.freshInt("zeroarr"), Typ: t}
	}
	return Val{K: kindOf(t), T: IntLit(0), Typ: t}
}

// freshVal yields an unconstrained value of type t (plus type well-formedness).
func (vc *VC) freshVal(t types.Type, hint string) Val {
	switch kindOf(t) {
	case KBool:
		return Val{K: KBool, T: vc.freshConst(hint, SBool), Typ: t}
	case KStr:
		return Val{K: KStr, T: vc.freshConst(hint, SStr), Typ: t}
	case KStruct:
		s, _ := structOf(t)
		v := Val{K: KStruct, Typ: t}
		for i := 0; i < s.NumFields(); i++ {
			v.Fs = append(v.Fs, vc.freshVal(s.Field(i).Type(), hint+"."+s.Field(i).Name()))
		}
		return v
	case KSlice:
		v := Val{K: KSlice, T: vc.freshInt(hint + ".arr"), Off: vc.freshInt(hint + ".off"), Len: vc.freshInt(hint + ".len"), Cap: vc.freshInt(hint + ".cap"), Typ: t}
		vc.assumeWF(v)
		return v
	case KIface:
		v := Val{K: KIface, Tag: vc.freshInt(hint + ".tag"), T: vc.freshInt(hint + ".val"), Typ: t}
		vc.assumeWF(v)
		return v
	case KTuple:
		tt := t.(*types.Tuple)
		v := Val{K: KTuple, Typ: t}
		for i := 0; i < tt.Len(); i++ {
			v.Fs = append(v.Fs, vc.freshVal(tt.At(i).Type(), fmt.Sprintf("%s.%d", hint, i)))
		}
		return v
	case KInt:
		v := Val{K: KInt, T: vc.freshInt(hint), Typ: t}
		vc.assumeWF(v)
		return v
	}
	return Val{K: kindOf(t), T: vc.freshInt(hint), Typ: t}
}

// assumeWF adds the type invariants of a value that comes from outside
// (parameter, heap load, call result).
func (vc *VC) assumeWF(v Val) {
	switch v.K {
	case KInt:
		if v.Typ == nil {
			return
		}
		if lo, hi, ok := intRange(v.Typ); ok && !isLiteral(v.T) {
			k := "wf:" + v.T.S
			if !vc.facts[k] {
				vc.facts[k] = true
				vc.assumeRaw(And(Le(BigLit(lo), v.T), Le(v.T, BigLit(hi))))
			}
		}
	case KSlice:
		k := "wf:" + v.T.S + v.Off.S + v.Len.S + v.Cap.S
		if !vc.facts[k] && !isLiteral(v.Len) {
			vc.facts[k] = true
			// a backing array is at most maxAlloc = 2^48 bytes (linux/amd64)
			bound := Le(v.Cap, BigLit("4611686018427387904"))
			if sl, ok := sliceTypeOf(v.Typ); ok {
				if esz := types.SizesFor("gc", "amd64").Sizeof(sl.Elem()); esz >= 1 {
					bound = Le(Mul(v.Cap, IntLit(esz)), BigLit("281474976710656"))
				}
			}
			vc.assumeRaw(And(Le(IntLit(0), v.Off), Le(IntLit(0), v.Len), Le(v.Len, v.Cap), bound,
				Implies(Eq(v.T, IntLit(0)), And(Eq(v.Cap, IntLit(0)), Eq(v.Off, IntLit(0))))))
		}
	case KIface:
		k := "wf:" + v.Tag.S
		if !vc.facts[k] && !isLiteral(v.Tag) {
			vc.facts[k] = true
			vc.assumeRaw(And(Le(IntLit(0), v.Tag), Implies(Eq(v.Tag, IntLit(0)), Eq(v.T, IntLit(0)))))
		}
	case KStruct, KTuple:
		for _, f := range v.Fs {
			vc.assumeWF(f)
		}
	case KStr:
		vc.strLenFact(v.T)
	}
}

func isLiteral(t Term) bool {
	if t.S == "" {
		return true
	}
	c := t.S[0]
	return (c >= '0' && c <= '9') || (len(t.S) > 3 && t.S[:3] == "(- ")
}

func (vc *VC) strLenFact(s Term) {
	k := "strlen:" + s.S
	if !vc.facts[k] {
		vc.facts[k] = true
		vc.decls.Fun("gstr.len", []Sort{SStr}, SInt)
		vc.assumeRaw(Le(IntLit(0), App(SInt, "gstr.len", s)))
	}
}

func (vc *VC) strLen(s Term) Term {
	vc.decls.Fun("gstr.len", []Sort{SStr}, SInt)
	vc.strLenFact(s)
	return App(SInt, "gstr.len", s)
}

func (vc *VC) strLit(s string) Term {
	if t, ok := vc.strlits[s]; ok {
		return t
	}
	name := fmt.Sprintf("strlit!%d", len(vc.strlits))
	t := vc.decls.Const(name, SStr)
	vc.decls.Fun("gstr.len", []Sort{SStr}, SInt)
	vc.assumeRaw(Eq(App(SInt, "gstr.len", t), IntLit(int64(len(s)))))
	others := make([]string, 0, len(vc.strlits))
	for o := range vc.strlits {
		others = append(others, o)
	}
	sort.Strings(others)
	for _, o := range others {
		if o != s {
			vc.assumeRaw(Ne(t, vc.strlits[o]))
		}
	}
	vc.strlits[s] = t
	vc.strlitText[name] = s
	return t
}

func (vc *VC) strCat(a, b Term) Term {
	vc.decls.Fun("gstr.cat", []Sort{SStr, SStr}, SStr)
	t := App(SStr, "gstr.cat", a, b)
	k := "cat:" + t.S
	if !vc.facts[k] {
		vc.facts[k] = true
		vc.assumeRaw(Eq(vc.strLen(t), Add(vc.strLen(a), vc.strLen(b))))
		if ea, ok := vc.strlits[""]; ok {
			if a.S == ea.S {
				vc.assumeRaw(Eq(t, b))
			}
			if b.S == ea.S {
				vc.assumeRaw(Eq(t, a))
			}
		}
	}
	return t
}

// typeTag numbers dynamic types of interface values.
func (vc *VC) typeTag(t types.Type) Term {
	k := typeKey(t)
	if n, ok := vc.tags[k]; ok {
		return IntLit(int64(n))
	}
	n := len(vc.tags) + 1
	vc.tags[k] = n
	vc.tagTypes[n] = t
	return IntLit(int64(n))
}

// boxing of non-pointer payloads
func (vc *VC) box(v Val) Term {
	switch v.K {
	case KInt, KPtr, KMap, KChan, KFunc, KFloat:
		if len(v.Path) != 0 || v.Local != "" {
			// pointer to a field / element / local: keep the structured address on the side
			t := vc.freshInt("box.addr")
			vc.assumeRaw(Ne(t, IntLit(0)))
			vc.boxed[t.S] = v
			return t
		}
		return v.T
	case KBool:
		return Ite(v.T, IntLit(1), IntLit(0))
	case KStr:
		vc.decls.Fun("box.str", []Sort{SStr}, SInt)
		vc.decls.Fun("unbox.str", []Sort{SInt}, SStr)
		return App(SInt, "box.str", v.T)
	default:
		t := vc.freshInt("box")
		vc.boxed[t.S] = v
		return t
	}
}

func (vc *VC) unbox(payload Term, t types.Type) Val {
	if v, ok := vc.boxed[payload.S]; ok {
		return v
	}
	switch kindOf(t) {
	case KInt, KPtr, KMap, KChan, KFunc, KFloat:
		v := Val{K: kindOf(t), T: payload, Typ: t}
		return v
	case KBool:
		return Val{K: KBool, T: Eq(payload, IntLit(1)), Typ: t}
	case KStr:
		vc.decls.Fun("unbox.str", []Sort{SInt}, SStr)
		return Val{K: KStr, T: App(SStr, "unbox.str", payload), Typ: t}
	}
	if v, ok := vc.boxed[payload.S]; ok {
		return v
	}
	return vc.freshVal(t, "unbox")
}

func sliceTypeOf(t types.Type) (*types.Slice, bool) {
	if t == nil {
		return nil, false
	}
	sl, ok := t.Underlying().(*types.Slice)
	return sl, ok
}
