package main

import (
	"encoding/json"
	"flag"
	"fmt"
	"os"
	"path/filepath"
	"runtime"
	"sort"
	"strconv"
	"strings"
	"sync"
	"time"
)

type OblResult struct {
	Func    string   `json:"func"`
	Name    string   `json:"name"`
	Kind    string   `json:"kind"`
	Tags    []string `json:"tags,omitempty"`
	Src     string   `json:"src,omitempty"`
	Where   string   `json:"where,omitempty"`
	Expect  string   `json:"expect"`
	Status  string   `json:"status"`
	Solver  string   `json:"solver"`
	Seconds float64  `json:"seconds"`
	Cached  bool     `json:"cached,omitempty"`
	Bytes   int      `json:"bytes"`
	OK      bool     `json:"ok"`
	Model   string   `json:"-"`
	Output  string   `json:"-"`
	query   string
	witness []WitnessTerm
}

func (r *OblResult) FullName() string { return shortFunc(r.Func) + "/" + r.Name }

func shortFunc(s string) string {
	s = strings.ReplaceAll(s, modulePath+"/", "")
	s = strings.ReplaceAll(s, "(*", "")
	s = strings.ReplaceAll(s, "(", "")
	s = strings.ReplaceAll(s, ")", "")
	s = strings.ReplaceAll(s, "cache/disk/casblob.", "casblob.")
	s = strings.ReplaceAll(s, "cache/disk.", "disk.")
	s = strings.ReplaceAll(s, "utils/", "")
	return s
}

func hasTag(tags []string, p string) bool {
	for _, t := range tags {
		if t == p {
			return true
		}
	}
	return false
}

func cmdCheck(argv []string) int {
	fs := flag.NewFlagSet("check", flag.ExitOnError)
	prop := fs.String("prop", "all", "property id or all")
	tier := fs.String("tier", "quick", "quick|thorough")
	repo := fs.String("repo", "/repo", "repository")
	prelude := fs.String("prelude", "/verif/spec/prelude.smt2", "SMT prelude")
	fnFilter := fs.String("func", "", "only functions whose key contains this")
	dump := fs.String("dump", "", "dump queries into this directory")
	verbose := fs.Bool("v", false, "print every obligation")
	out := fs.String("json", "", "write full results as JSON to this file")
	quickT := fs.Int("t1", 4, "first-stage solver timeout (s)")
	slowT := fs.Int("t2", 40, "portfolio solver timeout (s)")
	evidence := fs.String("evidence", "", "write the evidence file here")
	knownPath := fs.String("known", "/verif/known_findings.json", "known findings file")
	replayDir := fs.String("replaydir", "/verif/evidence/replay", "directory for replay files")
	agree := fs.Bool("agree", false, "require unsat from two different solvers (thorough)")
	fs.Parse(argv)
	if *tier == "thorough" {
		*agree = true
		if *slowT < 60 {
			*slowT = 60
		}
	}
	seed := 0
	if s := os.Getenv("VERIF_SEED"); s != "" {
		seed, _ = strconv.Atoi(s)
	}
	t0 := time.Now()
	eng, err := LoadEngine(*repo, *prelude)
	rs := &runSummary{prop: *prop, tier: *tier, seed: seed, replayDir: *replayDir, evidenceOut: *evidence,
		cmdline: "/verif/bin/govc check " + strings.Join(argv, " ")}
	known, kerr := loadKnown(*knownPath)
	if kerr != nil {
		fmt.Fprintln(os.Stderr, "govc:", kerr)
		return 2
	}
	rs.known = known
	if err != nil {
		fmt.Fprintln(os.Stderr, "govc:", err)
		rs.genErrs = append(rs.genErrs, "loading /repo failed: "+err.Error())
		rs.eng = &Engine{ct: &ContractTable{ByKey: map[string]*Contract{}}, prelude: &Prelude{}}
		rs.wall = time.Since(t0).Seconds()
		return rs.finish()
	}
	rs.eng = eng
	loadT := time.Since(t0)
	initSolve()
	defer cleanupSolve()
	var cons []*Contract
	safetyOnly := map[string]bool{}
	for _, c := range eng.ct.ByKey {
		if c.Kind != "func" || c.Trusted || c.NoBody {
			continue
		}
		if *prop != "all" && !hasTag(c.Serves, *prop) {
			if *prop != "C14" {
				continue
			}
			// C14 (no request can crash a handler): the no-panic obligations of EVERY function
			// under contract belong to it, whatever other properties the function serves
			safetyOnly[c.Key] = true
		}
		if *fnFilter != "" && !strings.Contains(c.Key, *fnFilter) {
			continue
		}
		cons = append(cons, c)
	}
	sort.Slice(cons, func(i, j int) bool { return cons[i].Key < cons[j].Key })
	if len(cons) == 0 && *fnFilter == "" {
		rs.genErrs = append(rs.genErrs, "no function under contract serves property "+*prop)
	}
	var results []*OblResult
	t1 := time.Now()
	for _, c := range cons {
		vc, err := func() (vc *VC, err error) {
			defer func() {
				if r := recover(); r != nil {
					buf := make([]byte, 6000)
					n := runtime.Stack(buf, false)
					err = fmt.Errorf("engine panic while verifying %s: %v\n%s", c.Key, r, buf[:n])
				}
			}()
			return eng.Verify(c)
		}()
		if err != nil {
			fmt.Fprintln(os.Stderr, "govc:", err)
			rs.genErrs = append(rs.genErrs, err.Error())
			continue
		}
		rs.vcs = append(rs.vcs, vc)
		n := 0
		for _, o := range vc.obls {
			// Every obligation of a function that serves the property is checked, whatever its own tag: a clause
			// proved under another property's tag is a hypothesis of the clauses after it (assert-then-assume), so
			// leaving it unchecked here would let a change slip through this property's check.
			if safetyOnly[c.Key] && !strings.HasPrefix(o.Name, "safety:") && !strings.HasPrefix(o.Name, "cover:") {
				continue
			}
			q := vc.QueryText(o)
			n++
			results = append(results, &OblResult{Func: o.Func, Name: o.Name, Kind: o.Kind, Tags: o.Tags, Src: o.Src, Where: o.Where, Expect: o.Expect, Bytes: len(q), query: q, witness: o.Witness})
		}
		if n == 0 {
			rs.genErrs = append(rs.genErrs, "contract block of "+c.Key+" produced no obligation")
		}
	}
	// constant maps: decided on the SSA of the package (no solver involved)
	for _, cm := range eng.ct.ConstMaps {
		if *prop != "all" && !hasTag(cm.Tags, *prop) {
			continue
		}
		if *fnFilter != "" && !strings.Contains(cm.PkgPath+".init", *fnFilter) {
			continue
		}
		ok, why := eng.checkConstMap(cm)
		q := "(assert false)\n(check-sat)\n"
		if !ok {
			q = "; " + why + "\n(check-sat)\n"
		}
		results = append(results, &OblResult{Func: strings.TrimPrefix(cm.PkgPath, modulePath+"/") + ".init", Name: "constmap[" + cm.Name + "]", Kind: "constmap", Tags: cm.Tags,
			Src: cm.Src + map[bool]string{true: "", false: "  -- " + why}[ok], Where: fmt.Sprintf("%s:%d", cm.File, cm.Line), Expect: "unsat", Bytes: len(q), query: q})
	}
	for _, cs := range eng.ct.ConstStrs {
		if *prop != "all" && !hasTag(cs.Tags, *prop) {
			continue
		}
		if *fnFilter != "" && !strings.Contains(cs.PkgPath+"."+cs.Func, *fnFilter) {
			continue
		}
		ok, why := eng.checkConstStr(cs)
		oname := fmt.Sprintf("conststr[%s#%d]", cs.Callee, cs.Ord)
		if cs.NoStore {
			ok, why = eng.checkNoStore(cs)
			oname = "nostore[" + cs.Callee + "]"
		}
		q := "(assert false)\n(check-sat)\n"
		if !ok {
			q = "; " + why + "\n(check-sat)\n"
		}
		results = append(results, &OblResult{Func: strings.TrimPrefix(cs.PkgPath, modulePath+"/") + "." + cs.Func, Name: oname, Kind: "conststr", Tags: cs.Tags,
			Src: cs.Src + map[bool]string{true: "", false: "  -- " + why}[ok], Where: fmt.Sprintf("%s:%d", cs.File, cs.Line), Expect: "unsat", Bytes: len(q), query: q})
	}
	// vacuity guard for the trusted axioms: the prelude as a whole must not be refutable
	{
		all := map[string]bool{}
		for n := range eng.prelude.Funs {
			all[n] = true
		}
		txt, _ := eng.prelude.Render(all)
		q := "(set-logic ALL)\n" + txt + "(check-sat)\n"
		results = append(results, &OblResult{Func: "prelude", Name: "cover:axioms-consistent", Kind: "cover", Expect: "sat",
			Src: "the prelude axioms taken together are not refutable", Bytes: len(q), query: q})
	}
	genT := time.Since(t1)
	if *dump != "" {
		os.MkdirAll(*dump, 0o755)
		for _, r := range results {
			if r.query != "" {
				os.WriteFile(filepath.Join(*dump, smtName(r.FullName())+".smt2"), []byte(r.query), 0o644)
			}
		}
	}
	// solve
	t2 := time.Now()
	var wg sync.WaitGroup
	sem := make(chan struct{}, 16)
	for _, r := range results {
		r := r
		wg.Add(1)
		sem <- struct{}{}
		go func() {
			defer wg.Done()
			defer func() { <-sem }()
			var v Verdict
			if r.Expect == "unsat" {
				v = Solve(r.query, *quickT, *slowT, true)
			} else {
				v = Solve(r.query, 3, 0, false)
			}
			if *agree && v.Status == "unsat" && r.Expect == "unsat" {
				v2 := SolveOther(r.query, v.Solver, *slowT)
				switch v2.Status {
				case "unsat":
					v.Solver = v.Solver + "+" + v2.Solver
					v.Seconds += v2.Seconds
				case "sat":
					// the solvers disagree: never counted as proved
					v = Verdict{Status: "unknown", Solver: v.Solver + "+" + v2.Solver, Seconds: v.Seconds + v2.Seconds,
						Output: "solvers disagree: second solver answered sat " + v2.Output}
				default:
					// the other solvers could not decide it in time: the proof stands on one solver (recorded as such)
					v.Solver = v.Solver + " (unconfirmed by a second solver)"
					v.Seconds += v2.Seconds
				}
			}
			r.Status = v.Status
			r.Solver = v.Solver
			r.Seconds = v.Seconds
			r.Cached = v.Cached
			r.Model = v.Model
			r.Output = v.Output
			if r.Expect == "unsat" {
				r.OK = v.Status == "unsat"
			} else {
				r.OK = v.Status == "sat" || v.Status == "unknown"
			}
		}()
	}
	wg.Wait()
	solveT := time.Since(t2)
	for _, r := range results {
		if *verbose || !r.OK {
			mark := "ok  "
			if !r.OK {
				mark = "FAIL"
			}
			fmt.Printf("%s %-8s %6.2fs %-10s %s  -- %s\n", mark, r.Status, r.Seconds, r.Solver, r.FullName(), r.Src)
		}
	}
	fmt.Printf("load=%.1fs gen=%.1fs solve=%.1fs\n", loadT.Seconds(), genT.Seconds(), solveT.Seconds())
	if *out != "" {
		b, _ := json.MarshalIndent(results, "", " ")
		os.WriteFile(*out, b, 0o644)
	}
	rs.results = results
	rs.wall = time.Since(t0).Seconds()
	rs.solveS = solveT.Seconds()
	return rs.finish()
}
