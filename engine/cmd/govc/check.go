package main

import (
	"encoding/json"
	"flag"
	"fmt"
	"os"
	"path/filepath"
	"runtime"
	"sort"
	"strings"
	"sync"
	"time"
)

type OblResult struct {
	Func    string   `json:"func"`
	Name    string   `json:"name"`
	Kind    string   `json:"kind"`
	Tags    []string `json:"tags,omitempty"`
	Src     string   `json:"src,omitempty"`
	Where   string   `json:"where,omitempty"`
	Expect  string   `json:"expect"`
	Status  string   `json:"status"`
	Solver  string   `json:"solver"`
	Seconds float64  `json:"seconds"`
	Cached  bool     `json:"cached,omitempty"`
	Bytes   int      `json:"bytes"`
	OK      bool     `json:"ok"`
	Model   string   `json:"-"`
	Output  string   `json:"-"`
	query   string
}

func (r *OblResult) FullName() string { return shortFunc(r.Func) + "/" + r.Name }

func shortFunc(s string) string {
	s = strings.ReplaceAll(s, modulePath+"/", "")
	s = strings.ReplaceAll(s, "(*", "")
	s = strings.ReplaceAll(s, "(", "")
	s = strings.ReplaceAll(s, ")", "")
	s = strings.ReplaceAll(s, "cache/disk/casblob.", "casblob.")
	s = strings.ReplaceAll(s, "cache/disk.", "disk.")
	s = strings.ReplaceAll(s, "utils/", "")
	return s
}

func hasTag(tags []string, p string) bool {
	for _, t := range tags {
		if t == p {
			return true
		}
	}
	return false
}

func cmdCheck(argv []string) int {
	fs := flag.NewFlagSet("check", flag.ExitOnError)
	prop := fs.String("prop", "all", "property id or all")
	tier := fs.String("tier", "quick", "quick|thorough")
	repo := fs.String("repo", "/repo", "repository")
	prelude := fs.String("prelude", "/verif/spec/prelude.smt2", "SMT prelude")
	fnFilter := fs.String("func", "", "only functions whose key contains this")
	dump := fs.String("dump", "", "dump queries into this directory")
	verbose := fs.Bool("v", false, "print every obligation")
	out := fs.String("json", "", "write full results as JSON to this file")
	quickT := fs.Int("t1", 4, "first-stage solver timeout (s)")
	slowT := fs.Int("t2", 20, "portfolio solver timeout (s)")
	fs.Parse(argv)
	_ = tier
	t0 := time.Now()
	eng, err := LoadEngine(*repo, *prelude)
	if err != nil {
		fmt.Fprintln(os.Stderr, "govc:", err)
		return 2
	}
	loadT := time.Since(t0)
	initSolve()
	defer cleanupSolve()
	var cons []*Contract
	for _, c := range eng.ct.ByKey {
		if c.Kind != "func" || c.Trusted || c.NoBody {
			continue
		}
		if *prop != "all" && !hasTag(c.Serves, *prop) {
			continue
		}
		if *fnFilter != "" && !strings.Contains(c.Key, *fnFilter) {
			continue
		}
		cons = append(cons, c)
	}
	sort.Slice(cons, func(i, j int) bool { return cons[i].Key < cons[j].Key })
	var results []*OblResult
	var vcs []*VC
	genErr := false
	t1 := time.Now()
	for _, c := range cons {
		vc, err := func() (vc *VC, err error) {
			defer func() {
				if r := recover(); r != nil {
					buf := make([]byte, 4096)
					n := runtime.Stack(buf, false)
					err = fmt.Errorf("engine panic while verifying %s: %v\n%s", c.Key, r, buf[:n])
				}
			}()
			return eng.Verify(c)
		}()
		if err != nil {
			fmt.Fprintln(os.Stderr, "govc:", err)
			genErr = true
			results = append(results, &OblResult{Func: c.Key, Name: "generation", Kind: "engine", Expect: "unsat", Status: "error", Src: err.Error()})
			continue
		}
		vcs = append(vcs, vc)
		for _, o := range vc.obls {
			if *prop != "all" && len(o.Tags) > 0 && !hasTag(o.Tags, *prop) {
				continue
			}
			q := vc.QueryText(o)
			results = append(results, &OblResult{Func: o.Func, Name: o.Name, Kind: o.Kind, Tags: o.Tags, Src: o.Src, Where: o.Where, Expect: o.Expect, Bytes: len(q), query: q})
		}
	}
	// vacuity guard for the trusted axioms: the prelude as a whole must not be refutable
	{
		all := map[string]bool{}
		for n := range eng.prelude.Funs {
			all[n] = true
		}
		txt, _ := eng.prelude.Render(all)
		q := "(set-logic ALL)\n" + txt + "(check-sat)\n"
		results = append(results, &OblResult{Func: "prelude", Name: "cover:axioms-consistent", Kind: "cover", Expect: "sat",
			Src: "the prelude axioms taken together are not refutable", Bytes: len(q), query: q})
	}
	genT := time.Since(t1)
	if *dump != "" {
		os.MkdirAll(*dump, 0o755)
		for _, r := range results {
			if r.query != "" {
				os.WriteFile(filepath.Join(*dump, smtName(r.FullName())+".smt2"), []byte(r.query), 0o644)
			}
		}
	}
	// solve
	t2 := time.Now()
	var wg sync.WaitGroup
	sem := make(chan struct{}, 16)
	for _, r := range results {
		if r.query == "" {
			continue
		}
		r := r
		wg.Add(1)
		sem <- struct{}{}
		go func() {
			defer wg.Done()
			defer func() { <-sem }()
			v := Solve(r.query, *quickT, *slowT, true)
			r.Status = v.Status
			r.Solver = v.Solver
			r.Seconds = v.Seconds
			r.Cached = v.Cached
			r.Model = v.Model
			r.Output = v.Output
			if r.Expect == "unsat" {
				r.OK = v.Status == "unsat"
			} else {
				r.OK = v.Status != "unsat"
			}
		}()
	}
	wg.Wait()
	solveT := time.Since(t2)
	nOK, nBad := 0, 0
	for _, r := range results {
		if r.OK {
			nOK++
		} else {
			nBad++
		}
		if *verbose || !r.OK {
			mark := "ok  "
			if !r.OK {
				mark = "FAIL"
			}
			fmt.Printf("%s %-8s %6.2fs %-10s %s  -- %s\n", mark, r.Status, r.Seconds, r.Solver, r.FullName(), r.Src)
		}
	}
	fmt.Printf("functions=%d obligations=%d discharged=%d failed=%d load=%.1fs gen=%.1fs solve=%.1fs\n", len(cons), len(results), nOK, nBad, loadT.Seconds(), genT.Seconds(), solveT.Seconds())
	if *out != "" {
		b, _ := json.MarshalIndent(results, "", " ")
		os.WriteFile(*out, b, 0o644)
	}
	if nBad > 0 || genErr {
		return 1
	}
	return 0
}
