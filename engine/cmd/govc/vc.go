package main

import (
	"fmt"
	"go/types"
	"strings"

	"golang.org/x/tools/go/ssa"
)

type Obligation struct {
	Name   string
	Kind   string   // requires ensures invariant safety frame cover callsite ...
	Tags   []string // property ids (empty = support)
	Goal   Term
	Guard  Term
	Hyps   []Term // local hypotheses (skolemised implications)
	NAss   int    // number of assumptions visible at this point
	Src    string // human-readable clause text
	Where  string // source position
	Expect string // "unsat" normally; "sat" for cover checks
	Func   string
	Witness []WitnessTerm // terms whose model values parameterise the replay adapter
}

type WitnessTerm struct {
	Name string
	T    Term
}

type VC struct {
	eng        *Engine
	fn         *ssa.Function
	con        *Contract
	decls      *Decls
	assumes    []string
	obls       []*Obligation
	nfresh     int
	tags       map[string]int
	tagTypes   map[int]types.Type
	strlits    map[string]Term
	strlitText map[string]string
	facts      map[string]bool
	boxed      map[string]Val
	keySort    map[string]Sort
	written    map[string]bool
	news       []Term
	pre        *State
	abstracted map[string]int
	inlined    map[string]int
	usedCon    map[string]bool // contracts used at call sites (assumed here, verified elsewhere)
	unsupp     []string
	quiet      int // >0: discovery mode, obligations suppressed
	refVals    []Term
	paramVals  map[string]Val
	trustNotes []string
	safetyN    map[string]int
	allowPanic bool
	noSafety   bool
	goroutines int
	usedCallCl map[string]bool
	qdepth     int
	adapter    *ReplayAdapter
	curFrame   *Frame
	curInstr   ssa.Instruction
	curState   *State
	sharedCells map[string]Val
	encapsViol  map[string]bool
}

func newVC(eng *Engine, fn *ssa.Function, con *Contract) *VC {
	return &VC{eng: eng, fn: fn, con: con, decls: NewDecls(), tags: map[string]int{}, tagTypes: map[int]types.Type{},
		strlits: map[string]Term{}, strlitText: map[string]string{}, facts: map[string]bool{}, boxed: map[string]Val{},
		keySort: map[string]Sort{}, written: map[string]bool{}, abstracted: map[string]int{}, inlined: map[string]int{},
		usedCon: map[string]bool{}, paramVals: map[string]Val{}}
}

func (vc *VC) freshName(hint string) string {
	vc.nfresh++
	h := smtName(hint)
	if len(h) > 40 {
		h = h[:40]
	}
	return fmt.Sprintf("%s!%d", h, vc.nfresh)
}

func (vc *VC) freshConst(hint string, s Sort) Term { return vc.decls.Const(vc.freshName(hint), s) }
func (vc *VC) freshInt(hint string) Term           { return vc.freshConst(hint, SInt) }
func (vc *VC) freshBool(hint string) Term          { return vc.freshConst(hint, SBool) }

func (vc *VC) assumeRaw(t Term) {
	if t.S == "true" {
		return
	}
	if vc.qdepth > 0 && strings.Contains(t.S, "bv$") {
		// side fact about a term that mentions a bound variable: cannot be stated globally
		return
	}
	vc.assumes = append(vc.assumes, "(assert "+t.S+")")
}

func (vc *VC) assume(t Term, why string) {
	if t.S == "true" {
		return
	}
	if vc.qdepth > 0 && strings.Contains(t.S, "bv$") {
		return
	}
	vc.assumes = append(vc.assumes, "(assert "+t.S+") ; "+why)
}

func (vc *VC) unsupported(msg string) {
	for _, m := range vc.unsupp {
		if m == msg {
			return
		}
	}
	vc.unsupp = append(vc.unsupp, msg)
}

func (vc *VC) addObl(o *Obligation) {
	if vc.quiet > 0 {
		return
	}
	if o.Expect == "" {
		o.Expect = "unsat"
	}
	if vc.adapter != nil && o.Expect == "unsat" && vc.curFrame != nil && vc.curFrame.depth == 0 {
		o.Witness = vc.witnessTerms()
	}
	o.NAss = len(vc.assumes)
	o.Func = vc.fn.String()
	// unique names
	base := o.Name
	n := 1
	for {
		dup := false
		for _, p := range vc.obls {
			if p.Name == o.Name {
				dup = true
				break
			}
		}
		if !dup {
			break
		}
		n++
		o.Name = fmt.Sprintf("%s~%d", base, n)
	}
	vc.obls = append(vc.obls, o)
	// assert-then-assume: an obligation stated at a program point may be used by
	// the obligations that follow it (its own failure is reported separately).
	if o.Expect == "unsat" && o.Goal.S != "false" && o.Goal.S != "true" && o.Kind != "cover" && o.Kind != "census" {
		pre := []Term{}
		if o.Guard.S != "" {
			pre = append(pre, o.Guard)
		}
		pre = append(pre, o.Hyps...)
		vc.assumes = append(vc.assumes, "(assert "+Implies(And(pre...), o.Goal).S+") ; asserted above as "+o.Name)
	}
}

// QueryText renders the SMT query for one obligation.
func (vc *VC) QueryText(o *Obligation) string {
	var body strings.Builder
	for i := 0; i < o.NAss && i < len(vc.assumes); i++ {
		body.WriteString(vc.assumes[i])
		body.WriteByte('\n')
	}
	if o.Guard.S != "" && o.Guard.S != "true" {
		body.WriteString("(assert " + o.Guard.S + ")\n")
	}
	for _, h := range o.Hyps {
		body.WriteString("(assert " + h.S + ")\n")
	}
	if o.Expect == "unsat" {
		body.WriteString("(assert (not " + o.Goal.S + "))\n")
	} else if o.Goal.S != "" && o.Goal.S != "true" {
		body.WriteString("(assert " + o.Goal.S + ")\n")
	}
	bs := body.String()
	// strip comments for symbol scan
	syms := map[string]bool{}
	for _, line := range strings.Split(bs, "\n") {
		if k := strings.Index(line, ") ; "); k >= 0 {
			line = line[:k+1]
		}
		symbolsOf(line, syms)
	}
	var out strings.Builder
	out.WriteString("(set-option :produce-models true)\n(set-logic ALL)\n")
	pre, preSyms := vc.eng.prelude.Render(syms)
	out.WriteString(pre)
	for _, name := range vc.decls.order {
		if syms[name] && !preSyms[name] {
			out.WriteString(vc.decls.m[name])
			out.WriteByte('\n')
		}
	}
	out.WriteString(bs)
	out.WriteString("(check-sat)\n")
	return out.String()
}
