package main

// The SMT prelude (/verif/spec/prelude.smt2): sorts, uninterpreted spec
// functions and axioms. An axiom is emitted into a query only when all the
// symbols named in its "; @needs a b c" line occur in the query, so that
// purely arithmetic queries stay quantifier-free (and get `sat` + model
// rather than `unknown` when they fail).

import (
	"fmt"
	"os"
	"strings"
)

type PreFun struct {
	Name string
	Args []Sort
	Res  Sort
	Text string
	Def  bool // define-fun
}

type PreAxiom struct {
	Name  string
	Needs []string
	Text  string
	Syms  map[string]bool
}

type Prelude struct {
	Sorts  []string
	Funs   map[string]*PreFun
	FunOrd []string
	Axioms []*PreAxiom
}

func splitSexprs(src string) []string {
	var out []string
	depth := 0
	start := -1
	inComment := false
	for i := 0; i < len(src); i++ {
		c := src[i]
		if inComment {
			if c == '\n' {
				inComment = false
			}
			continue
		}
		if c == ';' && depth == 0 {
			// top-level comment: emit as its own item
			j := strings.IndexByte(src[i:], '\n')
			if j < 0 {
				j = len(src) - i
			}
			out = append(out, src[i:i+j])
			i += j
			continue
		}
		if c == ';' {
			inComment = true
			continue
		}
		if c == '(' {
			if depth == 0 {
				start = i
			}
			depth++
		} else if c == ')' {
			depth--
			if depth == 0 && start >= 0 {
				out = append(out, src[start:i+1])
				start = -1
			}
		}
	}
	return out
}

func parseSortList(s string) []Sort {
	// s like "(GSeq Int (Array Int Int))"
	s = strings.TrimSpace(s)
	s = s[1 : len(s)-1]
	var out []Sort
	depth := 0
	start := -1
	for i := 0; i <= len(s); i++ {
		if i == len(s) || (s[i] == ' ' && depth == 0) {
			if start >= 0 {
				out = append(out, Sort(s[start:i]))
				start = -1
			}
			continue
		}
		if start < 0 {
			start = i
		}
		if s[i] == '(' {
			depth++
		} else if s[i] == ')' {
			depth--
		}
	}
	return out
}

func LoadPrelude(path string) (*Prelude, error) {
	b, err := os.ReadFile(path)
	if err != nil {
		return nil, err
	}
	p := &Prelude{Funs: map[string]*PreFun{}}
	var needs []string
	var axName string
	for _, it := range splitSexprs(string(b)) {
		if strings.HasPrefix(it, ";") {
			c := strings.TrimSpace(strings.TrimLeft(it, "; "))
			if strings.HasPrefix(c, "@needs") {
				needs = strings.Fields(c)[1:]
			} else if strings.HasPrefix(c, "@axiom") {
				f := strings.Fields(c)
				if len(f) > 1 {
					axName = f[1]
				}
			}
			continue
		}
		switch {
		case strings.HasPrefix(it, "(declare-sort"):
			p.Sorts = append(p.Sorts, it)
		case strings.HasPrefix(it, "(declare-fun"):
			// (declare-fun name (args) res)
			rest := strings.TrimSpace(it[len("(declare-fun") : len(it)-1])
			k := strings.IndexByte(rest, ' ')
			name := rest[:k]
			rest = strings.TrimSpace(rest[k:])
			// args list
			depth := 0
			end := 0
			for i := 0; i < len(rest); i++ {
				if rest[i] == '(' {
					depth++
				} else if rest[i] == ')' {
					depth--
					if depth == 0 {
						end = i
						break
					}
				}
			}
			args := parseSortList(rest[:end+1])
			res := Sort(strings.TrimSpace(rest[end+1:]))
			p.Funs[name] = &PreFun{Name: name, Args: args, Res: res, Text: it}
			p.FunOrd = append(p.FunOrd, name)
		case strings.HasPrefix(it, "(define-fun"):
			rest := strings.TrimSpace(it[len("(define-fun") : len(it)-1])
			k := strings.IndexByte(rest, ' ')
			name := rest[:k]
			rest = strings.TrimSpace(rest[k:])
			depth := 0
			end := 0
			for i := 0; i < len(rest); i++ {
				if rest[i] == '(' {
					depth++
				} else if rest[i] == ')' {
					depth--
					if depth == 0 {
						end = i
						break
					}
				}
			}
			// params: ((x Int) (y Int))
			var args []Sort
			inner := strings.TrimSpace(rest[1:end])
			for _, pr := range splitSexprs(inner) {
				pr = strings.TrimSpace(pr[1 : len(pr)-1])
				kk := strings.IndexByte(pr, ' ')
				args = append(args, Sort(strings.TrimSpace(pr[kk:])))
			}
			rest2 := strings.TrimSpace(rest[end+1:])
			// result sort = first token/sexpr
			var res string
			if rest2[0] == '(' {
				d := 0
				for i := 0; i < len(rest2); i++ {
					if rest2[i] == '(' {
						d++
					} else if rest2[i] == ')' {
						d--
						if d == 0 {
							res = rest2[:i+1]
							break
						}
					}
				}
			} else {
				res = rest2[:strings.IndexAny(rest2, " \n\t")]
			}
			p.Funs[name] = &PreFun{Name: name, Args: args, Res: Sort(res), Text: it, Def: true}
			p.FunOrd = append(p.FunOrd, name)
		case strings.HasPrefix(it, "(assert"):
			ax := &PreAxiom{Name: axName, Needs: needs, Text: it, Syms: map[string]bool{}}
			symbolsOf(it, ax.Syms)
			if len(needs) == 0 {
				return nil, fmt.Errorf("prelude axiom %q without @needs", axName)
			}
			p.Axioms = append(p.Axioms, ax)
			needs = nil
			axName = ""
		}
	}
	return p, nil
}

// Render returns the prelude text needed for a query mentioning syms and the
// set of symbols the prelude declares in that text.
func (p *Prelude) Render(syms map[string]bool) (string, map[string]bool) {
	use := map[string]bool{}
	for s := range syms {
		if _, ok := p.Funs[s]; ok {
			use[s] = true
		}
	}
	// defined functions pull in the symbols of their bodies
	changed := true
	inclAx := map[*PreAxiom]bool{}
	for changed {
		changed = false
		for name := range use {
			f := p.Funs[name]
			if f.Def {
				ss := map[string]bool{}
				symbolsOf(f.Text, ss)
				for s := range ss {
					if _, ok := p.Funs[s]; ok && !use[s] {
						use[s] = true
						changed = true
					}
				}
			}
		}
		for _, ax := range p.Axioms {
			if inclAx[ax] {
				continue
			}
			ok := true
			for _, n := range ax.Needs {
				if !use[n] {
					ok = false
					break
				}
			}
			if ok {
				inclAx[ax] = true
				changed = true
				for s := range ax.Syms {
					if _, isF := p.Funs[s]; isF && !use[s] {
						use[s] = true
					}
				}
			}
		}
	}
	var b strings.Builder
	for _, s := range p.Sorts {
		b.WriteString(s)
		b.WriteByte('\n')
	}
	for _, name := range p.FunOrd {
		if use[name] {
			b.WriteString(p.Funs[name].Text)
			b.WriteByte('\n')
		}
	}
	for _, ax := range p.Axioms {
		if inclAx[ax] {
			b.WriteString(ax.Text)
			b.WriteByte('\n')
		}
	}
	return b.String(), use
}
