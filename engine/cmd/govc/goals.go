package main

import (
	"fmt"
	"go/types"

	"golang.org/x/tools/go/ssa"
)

// subGoal is one conjunct of a proof goal together with the local hypotheses
// (antecedents of enclosing implications) under which it must hold. Universal
// quantifiers in positive position are skolemised.
type subGoal struct {
	Hyps []Term
	Goal Term
	Src  string
}

func (e *SpecEnv) goalList(x SExpr) (gs []subGoal, err error) {
	defer func() {
		if r := recover(); r != nil {
			if se, ok := r.(specErr); ok {
				err = fmt.Errorf("%s", se.msg)
				return
			}
			panic(r)
		}
	}()
	e.collectGoals(x, nil, &gs)
	return
}

func (e *SpecEnv) collectGoals(x SExpr, hyps []Term, out *[]subGoal) {
	switch n := x.(type) {
	case SBin:
		switch n.Op {
		case "&&":
			e.collectGoals(n.X, hyps, out)
			e.collectGoals(n.Y, hyps, out)
			return
		case "==>":
			h := e.boolTerm(e.Eval(n.X))
			nh := append(append([]Term(nil), hyps...), h)
			e.collectGoals(n.Y, nh, out)
			return
		}
	case SCall:
		if p, ok := e.vc.eng.ct.Preds[n.Fn]; ok {
			if len(p.Params) != len(n.Args) {
				e.fail("pred %s expects %d arguments", n.Fn, len(p.Params))
			}
			vars := map[string]Val{}
			for i, a := range n.Args {
				vars[p.Params[i]] = e.Eval(a)
			}
			ne := *e
			ne.vars = vars
			ne.f = nil
			if pk := e.vc.eng.pkgByPath(p.PkgPath); pk != nil {
				ne.pkg = pk
			}
			ne.collectGoals(p.Body, hyps, out)
			return
		}
	case SQuant:
		if n.Forall {
			vars := map[string]Val{}
			for _, v := range n.Vars {
				if s, ok := specSort(v.Sort); ok {
					k := KSpec
					if s == SInt {
						k = KInt
					} else if s == SBool {
						k = KBool
					} else if s == SStr {
						k = KStr
					}
					vars[v.Name] = Val{K: k, T: e.vc.freshConst("sk."+v.Name, s)}
				} else if t := e.lookupType(v.Sort); t != nil {
					if _, isStruct := structOf(t); isStruct {
						t = types.NewPointer(t)
					}
					vars[v.Name] = Val{K: kindOf(t), T: e.vc.freshConst("sk."+v.Name, sortOfKind(kindOf(t))), Typ: t}
				} else {
					e.fail("unknown sort %q", v.Sort)
				}
			}
			e.with(vars).collectGoals(n.Body, hyps, out)
			return
		}
	}
	g := e.boolTerm(e.Eval(x))
	*out = append(*out, subGoal{Hyps: hyps, Goal: g, Src: specString(x)})
}

// lookupAddr resolves &name for a local variable that lives in memory (an
// Alloc with that name dominating the program point).
func (f *Frame) lookupAddr(name string, at *ssa.BasicBlock) (Val, bool) {
	var best *ssa.Alloc
	bestDepth := -1
	for _, b := range f.fn.Blocks {
		if at != nil && !(b == at || b.Dominates(at)) {
			continue
		}
		d := domDepth(b)
		for _, in := range b.Instrs {
			if a, ok := in.(*ssa.Alloc); ok && a.Comment == name {
				if _, bound := f.env[a]; bound && d >= bestDepth {
					best = a
					bestDepth = d
				}
			}
		}
	}
	if best == nil {
		return Val{}, false
	}
	return f.env[best], true
}

// addGoals turns a contract clause into one obligation per conjunct.
func (vc *VC) addGoals(env *SpecEnv, cl Clause, name, kind string, guard Term, srcPrefix, where string) {
	gs, err := env.goalList(cl.Expr)
	if err != nil {
		vc.specError(cl, err)
		return
	}
	for i, g := range gs {
		nm := name
		src := srcPrefix + cl.Src
		if len(gs) > 1 {
			nm = fmt.Sprintf("%s.%d", name, i)
			src = srcPrefix + cl.Src + "   [conjunct " + fmt.Sprint(i) + ": " + g.Src + "]"
		}
		vc.addObl(&Obligation{Name: nm, Kind: kind, Tags: cl.Tags, Goal: g.Goal, Hyps: g.Hyps, Guard: guard, Src: src, Where: where})
	}
}
