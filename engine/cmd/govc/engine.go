package main

import (
	"fmt"
	"go/constant"
	"go/token"
	"strconv"
	"go/types"
	"sort"
	"strings"

	"golang.org/x/tools/go/packages"
	"golang.org/x/tools/go/ssa"
	"golang.org/x/tools/go/ssa/ssautil"
)

const modulePath = "github.com/buchgr/bazel-remote/v2"

type Engine struct {
	repo    string
	prog    *ssa.Program
	pkgs    []*packages.Package
	spkgs   []*ssa.Package
	ct      *ContractTable
	prelude *Prelude
	funcs   map[string]*ssa.Function
	nonNilGlobal map[*ssa.Global]bool
	globalDyn    map[*ssa.Global]types.Type // dynamic type of an interface-typed global initialised once
	adapters []*ReplayAdapter
}

type modelFn func(f *Frame, in ssa.Instruction, args []Val, o *blockOut, resT types.Type) Val

func LoadEngine(repo, preludePath string) (*Engine, error) {
	cfg := &packages.Config{
		Mode: packages.NeedName | packages.NeedFiles | packages.NeedCompiledGoFiles | packages.NeedImports |
			packages.NeedTypes | packages.NeedTypesSizes | packages.NeedSyntax | packages.NeedTypesInfo,
		Dir: repo, BuildFlags: []string{"-tags=verif"},
	}
	pkgs, err := packages.Load(cfg, "./...")
	if err != nil {
		return nil, err
	}
	var errs []string
	packages.Visit(pkgs, nil, func(p *packages.Package) {
		for _, e := range p.Errors {
			errs = append(errs, e.Error())
		}
	})
	if len(errs) > 0 {
		return nil, fmt.Errorf("package load errors:\n%s", strings.Join(errs, "\n"))
	}
	prog, spkgs := ssautil.Packages(pkgs, ssa.InstantiateGenerics|ssa.GlobalDebug)
	prog.Build()
	eng := &Engine{repo: repo, prog: prog, pkgs: pkgs, spkgs: spkgs, funcs: map[string]*ssa.Function{}}
	for fn := range ssautil.AllFunctions(prog) {
		eng.funcs[fn.String()] = fn
	}
	eng.findNonNilGlobals()
	eng.adapters = loadAdapters("/verif/replay/adapters.json")
	ct, err := LoadContracts(repo)
	if err != nil {
		return nil, err
	}
	eng.ct = ct
	pre, err := LoadPrelude(preludePath)
	if err != nil {
		return nil, err
	}
	eng.prelude = pre
	return eng, nil
}

// findNonNilGlobals records package-level variables of the module that are
// assigned exactly once, in their package initialiser, with a value that cannot
// be nil (errors.New, fmt.Errorf, &T{...}). Loads of such variables are non-nil.
func (eng *Engine) findNonNilGlobals() {
	eng.nonNilGlobal = map[*ssa.Global]bool{}
	eng.globalDyn = map[*ssa.Global]types.Type{}
	stores := map[*ssa.Global][]*ssa.Store{}
	for _, fn := range eng.funcs {
		// all functions of all packages: a global counts only if its single store is in an initialiser
		for _, b := range fn.Blocks {
			for _, in := range b.Instrs {
				if st, ok := in.(*ssa.Store); ok {
					if g, ok := st.Addr.(*ssa.Global); ok {
						stores[g] = append(stores[g], st)
					}
				}
			}
		}
	}
	for g, ss := range stores {
		if len(ss) != 1 || ss[0].Parent().Name() != "init" {
			continue
		}
		v := ss[0].Val
		if mi, ok := v.(*ssa.MakeInterface); ok {
			v = mi.X
			if _, isAlloc := v.(*ssa.Alloc); isAlloc {
				eng.globalDyn[g] = v.Type()
			}
		}
		switch x := v.(type) {
		case *ssa.Alloc:
			eng.nonNilGlobal[g] = true
		case *ssa.Call:
			if sc := x.Call.StaticCallee(); sc != nil {
				switch sc.String() {
				case "errors.New", "fmt.Errorf", "google.golang.org/grpc/status.Error", "google.golang.org/grpc/status.Errorf":
					eng.nonNilGlobal[g] = true
					if sc.String() == "errors.New" && sc.Pkg != nil {
						// errors.New returns a *errors.errorString
						if o := sc.Pkg.Pkg.Scope().Lookup("errorString"); o != nil {
							eng.globalDyn[g] = types.NewPointer(o.Type())
						}
					}
				default:
					if returnsFreshObject(sc) {
						eng.nonNilGlobal[g] = true
					}
				}
			}
		}
	}
}

// returnsFreshObject: every return of fn (single result) yields a freshly allocated object.
func returnsFreshObject(fn *ssa.Function) bool {
	if fn.Blocks == nil || fn.Signature.Results().Len() != 1 {
		return false
	}
	n := 0
	for _, b := range fn.Blocks {
		for _, in := range b.Instrs {
			if r, ok := in.(*ssa.Return); ok {
				n++
				v := r.Results[0]
				if mi, ok := v.(*ssa.MakeInterface); ok {
					v = mi.X
				}
				if _, ok := v.(*ssa.Alloc); !ok {
					return false
				}
			}
		}
	}
	return n > 0
}

func (eng *Engine) inRepo(fn *ssa.Function) bool {
	if fn.Pkg == nil {
		if fn.Parent() != nil {
			return eng.inRepo(fn.Parent())
		}
		// synthetic wrappers: look at the receiver's package
		if fn.Signature.Recv() != nil {
			if n, ok := derefNamed(fn.Signature.Recv().Type()); ok && n.Obj().Pkg() != nil {
				return strings.HasPrefix(n.Obj().Pkg().Path(), modulePath)
			}
		}
		return false
	}
	return strings.HasPrefix(fn.Pkg.Pkg.Path(), modulePath)
}

func derefNamed(t types.Type) (*types.Named, bool) {
	if p, ok := t.(*types.Pointer); ok {
		t = p.Elem()
	}
	n, ok := types.Unalias(t).(*types.Named)
	return n, ok
}

func (eng *Engine) pkgByPath(path string) *types.Package {
	for _, p := range eng.prog.AllPackages() {
		if p.Pkg.Path() == path {
			return p.Pkg
		}
	}
	return nil
}

func (eng *Engine) model(key string) modelFn { return nil }

var effectFreePrefixes = []string{
	"fmt.", "log.", "(*log.Logger).", "strconv.", "strings.", "errors.New", "errors.Is", "time.", "(time.", "path.", "path/filepath.",
	"math.", "unicode", "(github.com/prometheus/", "github.com/prometheus/", "(*sync.WaitGroup).", "(*sync/atomic.", "sync/atomic.",
	"google.golang.org/grpc/status.", "google.golang.org/grpc/codes.", "(*google.golang.org/grpc/status.", "os.IsNotExist", "os.IsExist",
	"encoding/hex.EncodeToString", "(hash.Hash).Sum", "bytes.Equal", "net.SplitHostPort", "net.JoinHostPort", "net/url.", "regexp.",
	"(*regexp.Regexp).", "(context.Context).", "context.", "(error).Error", "(fmt.Stringer).String", "crypto/sha256.Sum256", "runtime.",
	"(*golang.org/x/sync/semaphore.Weighted).", "(net/http.Header).", "net/http.Error", "(net/http.ResponseWriter).", "net/http.StatusText",
	"google.golang.org/protobuf/proto.Size", "google.golang.org/protobuf/proto.Marshal", "google.golang.org/protobuf/proto.Equal",
	"(github.com/buchgr/bazel-remote/v2/cache.Logger).",
	"(*sync.Mutex).", "(*sync.RWMutex).",
}

func (eng *Engine) effectFree(key string) bool {
	for _, p := range effectFreePrefixes {
		if strings.HasPrefix(key, p) {
			return true
		}
	}
	return false
}

func (f *Frame) initMaps() {
	if f.rangeOf == nil {
		f.rangeOf = map[*ssa.Range]ssa.Value{}
	}
	if f.deferArgs == nil {
		f.deferArgs = map[*ssa.Defer][]Val{}
	}
}

// Verify generates the verification conditions of one function under contract.
func (eng *Engine) Verify(con *Contract) (*VC, error) {
	fn := eng.funcs[con.Key]
	if fn == nil {
		return nil, fmt.Errorf("%s:%d: contract target %s does not exist in /repo", con.File, con.Line, con.Key)
	}
	if fn.Blocks == nil {
		return nil, fmt.Errorf("%s:%d: contract target %s has no body", con.File, con.Line, con.Key)
	}
	vc := newVC(eng, fn, con)
	vc.safetyN = map[string]int{}
	vc.usedCallCl = map[string]bool{}
	vc.allowPanic = con.AllowPanic
	vc.noSafety = con.NoSafety
	if con.NoSafety {
		vc.trustNotes = append(vc.trustNotes, "no-panic obligations of "+con.Key+" are not generated (nosafety): absence of panics in it is assumed")
	}
	vc.adapter = eng.adapterFor(con.Key)
	fr := newFrame(vc, fn, nil)
	fr.top = true
	fr.con = con
	fr.initMaps()
	pre := &State{H: map[string]Term{}, Armed: map[int]Term{}}
	vc.pre = pre
	for _, p := range fn.Params {
		v := vc.freshVal(p.Type(), "p."+p.Name())
		vc.assumeWF(v)
		fr.params = append(fr.params, v)
		vc.noteRefs(v)
		if v.K == KPtr {
			vc.assumeRaw(Or(Eq(v.T, IntLit(0)), vc.isAllocated(pre, v.T)))
		}
	}
	for _, fv := range fn.FreeVars {
		v := vc.freshVal(fv.Type(), "fv."+fv.Name())
		if v.K == KPtr {
			// a free variable is the address of the captured variable: never nil, allocated by the enclosing function
			vc.assumeRaw(And(Ne(v.T, IntLit(0)), vc.isAllocated(pre, v.T)))
		}
		fr.binds = append(fr.binds, v)
		vc.noteRefs(v)
	}
	st := pre.clone()
	// requires and assumptions
	env := fr.specEnv(st, fn.Blocks[0], nil)
	env.old = st
	for _, cl := range con.Requires {
		t, err := env.evalBool(cl.Expr)
		if err != nil {
			vc.specError(cl, err)
			continue
		}
		vc.assume(t, "requires "+cl.Src)
	}
	for _, cl := range con.Assumes {
		t, err := env.evalBool(cl.Expr)
		if err != nil {
			vc.specError(cl, err)
			continue
		}
		vc.assume(t, "ASSUMED "+cl.Src)
		vc.trustNotes = append(vc.trustNotes, "function-level assumption in "+fn.Name()+": "+cl.Src)
	}
	// the pre-state is the state after reading requires (lazy arrays are all @0)
	for k, v := range st.H {
		pre.H[k] = v
	}
	fr.preSt = pre
	fr.run(st, True)

	// postconditions at every return
	sort.SliceStable(fr.exits, func(i, j int) bool { return fr.exits[i].ord < fr.exits[j].ord })
	var exitGuards []Term
	for _, e := range fr.exits {
		exitGuards = append(exitGuards, e.guard)
		penv := fr.specEnv(e.st, e.instr.Block(), nil)
		penv.old = pre
		bindResultNames(penv.vars, fn.Signature, e.results)
		vc.curFrame, vc.curInstr, vc.curState = fr, e.instr, e.st
		for i, cl := range con.Ensures {
			vc.addGoals(penv, cl, fmt.Sprintf("ensures[%s]@ret%d", clauseLabel(cl, i), e.ord), "ensures", e.guard, "ensures ", fr.posString(e.instr.Pos()))
		}
		if !con.NoFrame {
			fr.frameCheck(e, pre, penv)
		}
	}
	// vacuity: some return must be reachable under the assumptions
	vc.addObl(&Obligation{Name: "cover:return-reachable", Kind: "cover", Goal: Or(exitGuards...), Guard: True, Expect: "sat",
		Src: "requires + assumed contracts are satisfiable and a return is reachable"})
	// every call-site clause must have matched a call
	for _, cl := range con.CallCl {
		if !vc.usedCallCl[fmt.Sprintf("%s:%d", cl.File, cl.Line)] {
			vc.addObl(&Obligation{Name: fmt.Sprintf("callsite-missing:%s#%d", cl.Callee, cl.CallOrd), Kind: "census", Tags: cl.Tags, Goal: False, Guard: True,
				Src: fmt.Sprintf("call-site clause targets %s#%d but no such call exists in %s", cl.Callee, cl.CallOrd, fn.Name()), Where: fmt.Sprintf("%s:%d", cl.File, cl.Line)})
		}
	}
	for ord := range con.LoopInv {
		found := false
		for _, li := range fr.loops {
			if li.ord == ord {
				found = true
			}
		}
		if !found {
			vc.addObl(&Obligation{Name: fmt.Sprintf("loop-missing:%d", ord), Kind: "census", Goal: False, Guard: True,
				Src: fmt.Sprintf("loop invariant targets loop %d but %s has %d loops", ord, fn.Name(), len(fr.loops))})
		}
	}
	for _, u := range vc.unsupp {
		vc.addObl(&Obligation{Name: "unsupported:" + smtName(u), Kind: "unsupported", Goal: False, Guard: True, Src: "construct outside the verified subset: " + u})
	}
	return vc, nil
}

func (vc *VC) noteRefs(v Val) {
	switch v.K {
	case KPtr, KMap, KChan:
		if !isLiteral(v.T) {
			vc.refVals = append(vc.refVals, v.T)
		}
	case KSlice:
		vc.refVals = append(vc.refVals, v.T)
	case KIface:
		vc.refVals = append(vc.refVals, v.T)
	case KStruct, KTuple:
		for _, f := range v.Fs {
			vc.noteRefs(f)
		}
	}
}

// frameCheck emits, for every heap array written on the way to this return,
// the obligation that only locations named in `modifies` (or freshly
// allocated ones) differ from the pre-state.
func (f *Frame) frameCheck(e exitInfo, pre *State, penv *SpecEnv) {
	vc := f.vc
	con := f.con
	allowed := map[string][]location{}
	preEnv := *penv
	preEnv.cur = pre
	for i, m := range con.Modifies {
		func() {
			defer func() {
				if r := recover(); r != nil {
					if se, ok := r.(specErr); ok {
						vc.specError(Clause{File: con.File, Line: con.Line, Src: "modifies " + con.ModifiesSrc[i]}, fmt.Errorf("%s", se.msg))
						return
					}
					panic(r)
				}
			}()
			for _, l := range preEnv.locations(m) {
				allowed[l.name] = append(allowed[l.name], l)
			}
		}()
	}
	f.frameObls(e.st, pre, allowed, fmt.Sprintf("@ret%d", e.ord), e.guard, f.posString(e.instr.Pos()))
}

func boolKeys(m map[string]Term) map[string]bool {
	r := make(map[string]bool, len(m))
	for k := range m {
		r[k] = true
	}
	return r
}

// checkConstMap: the package initialiser stores a fresh map into the global, inserts exactly the
// listed constant string keys, and no function of the package updates or reassigns that map.
func (eng *Engine) checkConstMap(cm *ConstMap) (bool, string) {
	var pkg *ssa.Package
	for _, p := range eng.prog.AllPackages() {
		if p.Pkg.Path() == cm.PkgPath {
			pkg = p
		}
	}
	if pkg == nil {
		return false, "package not found"
	}
	g, ok := pkg.Members[cm.Name].(*ssa.Global)
	if !ok {
		return false, "no package-level variable " + cm.Name
	}
	want := map[string]bool{}
	for _, k := range cm.Keys {
		want[k] = true
	}
	got := map[string]bool{}
	nStores := 0
	var mk ssa.Value
	derives := func(v ssa.Value) bool { // v is the map held by the global
		if v == mk && mk != nil {
			return true
		}
		if u, ok := v.(*ssa.UnOp); ok {
			if gg, ok := u.X.(*ssa.Global); ok && gg == g {
				return true
			}
		}
		return false
	}
	var fns []*ssa.Function
	for _, fn := range eng.funcs {
		if fn.Pkg == pkg {
			fns = append(fns, fn)
		}
	}
	sort.Slice(fns, func(i, j int) bool { return fns[i].String() < fns[j].String() })
	// first pass: the single store
	for _, fn := range fns {
		for _, b := range fn.Blocks {
			for _, in := range b.Instrs {
				if st, ok := in.(*ssa.Store); ok {
					if gg, ok := st.Addr.(*ssa.Global); ok && gg == g {
						nStores++
						if fn.Name() != "init" {
							return false, cm.Name + " is assigned in " + fn.Name()
						}
						if _, isMk := st.Val.(*ssa.MakeMap); !isMk {
							return false, cm.Name + " is not initialised with a map literal"
						}
						mk = st.Val
					}
				}
			}
		}
	}
	if nStores != 1 {
		return false, fmt.Sprintf("%s is assigned %d times", cm.Name, nStores)
	}
	for _, fn := range fns {
		for _, b := range fn.Blocks {
			for _, in := range b.Instrs {
				switch x := in.(type) {
				case *ssa.MapUpdate:
					if !derives(x.Map) {
						continue
					}
					if fn.Name() != "init" {
						return false, cm.Name + " is updated in " + fn.Name()
					}
					c, ok := x.Key.(*ssa.Const)
					if !ok || c.Value == nil || c.Value.Kind() != constant.String {
						return false, "non-constant key inserted into " + cm.Name
					}
					got[constant.StringVal(c.Value)] = true
				case *ssa.Call:
					if b, ok := x.Call.Value.(*ssa.Builtin); ok && (b.Name() == "delete" || b.Name() == "clear") && len(x.Call.Args) > 0 && derives(x.Call.Args[0]) {
						return false, cm.Name + " is shrunk in " + fn.Name()
					}
				}
			}
		}
	}
	for k := range got {
		if !want[k] {
			return false, "unexpected key " + strconv.Quote(k) + " in " + cm.Name
		}
	}
	for k := range want {
		if !got[k] {
			return false, "missing key " + strconv.Quote(k) + " in " + cm.Name
		}
	}
	return true, ""
}

// checkNoStore: the named function has no Store whose address indexes a slice loaded from a struct field called cs.Callee.
func (eng *Engine) checkNoStore(cs *ConstStr) (bool, string) {
	var cands []*ssa.Function
	for _, fn := range eng.funcs {
		if fn.Pkg != nil && fn.Pkg.Pkg.Path() == cs.PkgPath && fn.Name() == cs.Func {
			cands = append(cands, fn)
		}
	}
	if len(cands) != 1 {
		return false, fmt.Sprintf("%d functions named %s in %s", len(cands), cs.Func, cs.PkgPath)
	}
	var fromField func(v ssa.Value, depth int) bool
	fromField = func(v ssa.Value, depth int) bool {
		if depth > 8 {
			return true // give up conservatively
		}
		switch x := v.(type) {
		case *ssa.UnOp:
			if fa, ok := x.X.(*ssa.FieldAddr); ok && x.Op == token.MUL {
				return fieldName(fa) == cs.Callee
			}
		case *ssa.Slice:
			return fromField(x.X, depth+1)
		case *ssa.Phi:
			for _, e := range x.Edges {
				if fromField(e, depth+1) {
					return true
				}
			}
		}
		return false
	}
	seen := false
	for _, b := range cands[0].Blocks {
		for _, in := range b.Instrs {
			if fa, ok := in.(*ssa.FieldAddr); ok && fieldName(fa) == cs.Callee {
				seen = true
			}
			st, ok := in.(*ssa.Store)
			if !ok {
				continue
			}
			if ia, ok := st.Addr.(*ssa.IndexAddr); ok && fromField(ia.X, 0) {
				return false, "store into an element of ." + cs.Callee + " at " + cands[0].Prog.Fset.Position(st.Pos()).String()
			}
		}
	}
	if !seen {
		return false, "the function does not mention a field ." + cs.Callee + " (stale clause)"
	}
	return true, ""
}

// checkConstStr: the k-th call of callee in the named function has exactly one constant string argument, equal to the literal.
func (eng *Engine) checkConstStr(cs *ConstStr) (bool, string) {
	var cands []*ssa.Function
	for _, fn := range eng.funcs {
		if fn.Pkg != nil && fn.Pkg.Pkg.Path() == cs.PkgPath && fn.Name() == cs.Func {
			cands = append(cands, fn)
		}
	}
	if len(cands) != 1 {
		return false, fmt.Sprintf("%d functions named %s in %s", len(cands), cs.Func, cs.PkgPath)
	}
	type call struct {
		pos  token.Pos
		args []ssa.Value
	}
	var calls []call
	for _, b := range cands[0].Blocks {
		for _, in := range b.Instrs {
			ci, ok := in.(ssa.CallInstruction)
			if !ok {
				continue
			}
			if calleeShortName(ci.Common()) == cs.Callee {
				calls = append(calls, call{in.Pos(), ci.Common().Args})
			}
		}
	}
	sort.Slice(calls, func(i, j int) bool { return calls[i].pos < calls[j].pos })
	if cs.Ord >= len(calls) {
		return false, fmt.Sprintf("no call %s#%d in %s", cs.Callee, cs.Ord, cs.Func)
	}
	var lits []string
	for _, a := range calls[cs.Ord].args {
		if c, ok := a.(*ssa.Const); ok && c.Value != nil && c.Value.Kind() == constant.String {
			lits = append(lits, constant.StringVal(c.Value))
		}
	}
	if len(lits) != 1 {
		return false, fmt.Sprintf("%s#%d has %d constant string arguments", cs.Callee, cs.Ord, len(lits))
	}
	if lits[0] != cs.Want {
		return false, "the literal is " + strconv.Quote(lits[0])
	}
	return true, ""
}
