package main

// Verdicts, known findings, replay files and evidence.

import (
	"encoding/json"
	"fmt"
	"os"
	"path/filepath"
	"regexp"
	"sort"
	"strings"
)

type KnownFinding struct {
	Status     string `json:"status"` // "known" or "fixed"
	Property   string `json:"property"`
	Obligation string `json:"obligation"` // regular expression over the full obligation name
	What       string `json:"what"`
	Commit     string `json:"commit,omitempty"`
	re         *regexp.Regexp
}

func loadKnown(path string) ([]*KnownFinding, error) {
	b, err := os.ReadFile(path)
	if err != nil {
		if os.IsNotExist(err) {
			return nil, nil
		}
		return nil, err
	}
	var ks []*KnownFinding
	if err := json.Unmarshal(b, &ks); err != nil {
		return nil, fmt.Errorf("%s: %v", path, err)
	}
	for _, k := range ks {
		re, err := regexp.Compile("^(?:" + k.Obligation + ")$")
		if err != nil {
			return nil, fmt.Errorf("%s: %v", path, err)
		}
		k.re = re
	}
	return ks, nil
}

type Evidence struct {
	PropertyID  string                 `json:"property_id"`
	Tier        string                 `json:"tier"`
	Seed        int                    `json:"seed"`
	Level       string                 `json:"level"`
	Coverage    map[string]interface{} `json:"coverage"`
	Assumptions []string               `json:"assumptions"`
	WallS       float64                `json:"wall_s"`
	Violations  int                    `json:"violations"`
}

var modelAssumptions = []string{
	"engine: the go/ssa -> SMT translation of govc itself, go/ssa (x/tools v0.29.0) and the SMT solvers are trusted; mitigations: cover checks, must-fail mutant corpus, prelude consistency check",
	"machine model: linux/amd64, int is 64 bit; every fixed-width +,-,* is wrapped explicitly (two's complement); floats are opaque; unsafe/cgo/assembly not modelled",
	"memory model: one SMT array per (struct type, field); Go type safety assumed; freshly allocated objects are distinct from every previously named reference and not in the ghost set `alloc`",
	"calls without contract and without body in /repo are abstracted: results unconstrained, only the direct pointees of pointer/slice/interface arguments are havocked (listed under abstracted_calls)",
	"goroutines started with `go` are not interleaved: local cells they capture are read as unconstrained values afterwards; channel operations are not modelled (no blocking, no deadlock claims)",
	"loops are cut at their headers by the invariants written in the contract files (or `true`); termination only where a `decreases` clause is given",
	"max_size is at most 2^61 bytes and every file size is below 2^62 bytes (stated in the SizedLRU invariant)",
}

func uniqSorted(xs []string) []string {
	m := map[string]bool{}
	for _, x := range xs {
		m[x] = true
	}
	return sortedKeys(m)
}

type runSummary struct {
	prop        string
	tier        string
	seed        int
	results     []*OblResult
	vcs         []*VC
	eng         *Engine
	wall        float64
	solveS      float64
	cmdline     string
	known       []*KnownFinding
	replayDir   string
	evidenceOut string
	genErrs     []string
}

// finish prints VIOLATION / KNOWN-FINDING lines, writes replay files and the evidence; returns the exit code.
func (rs *runSummary) finish() int {
	nObl, nOK := 0, 0
	perSolver := map[string]int{}
	solverSec := map[string]float64{}
	var samples []interface{}
	var bad []*OblResult
	nCover := 0
	kinds := map[string]int{}
	for _, r := range rs.results {
		if r.Kind == "cover" {
			nCover++
		}
		nObl++
		kinds[r.Kind]++
		if r.OK {
			nOK++
			if r.Cached {
				perSolver[r.Solver+" (cached verdict)"]++
			} else {
				perSolver[r.Solver]++
			}
			solverSec[r.Solver] += r.Seconds
		} else {
			bad = append(bad, r)
		}
	}
	// samples: a few discharged obligations written out
	step := len(rs.results)/4 + 1
	for i := 0; i < len(rs.results) && len(samples) < 4; i += step {
		r := rs.results[i]
		samples = append(samples, map[string]interface{}{"obligation": r.FullName(), "kind": r.Kind, "clause": r.Src, "where": r.Where,
			"expect": r.Expect, "status": r.Status, "solver": r.Solver, "seconds": r.Seconds, "smt_bytes": r.Bytes})
	}
	violations := 0
	knownSeen := []string{}
	os.MkdirAll(filepath.Join(rs.replayDir, rs.prop), 0o755)
	for _, r := range bad {
		full := r.FullName()
		var kf *KnownFinding
		for _, k := range rs.known {
			if k.Status == "known" && k.Property == rs.prop && k.re.MatchString(full) {
				kf = k
				break
			}
		}
		if kf != nil {
			fmt.Printf("KNOWN-FINDING: property=%s %s [%s]\n", rs.prop, kf.What, full)
			knownSeen = append(knownSeen, full)
			continue
		}
		violations++
		path := filepath.Join(rs.replayDir, rs.prop, smtName(full)+".json")
		rep := map[string]interface{}{
			"property": rs.prop, "obligation": full, "function": r.Func, "kind": r.Kind, "clause": r.Src, "where": r.Where,
			"expected": r.Expect, "solver_status": r.Status, "solver": r.Solver, "solver_output": r.Output, "model": r.Model,
			"meaning": "this obligation is discharged on the unchanged tree and is not discharged now; " +
				map[bool]string{true: "the solver produced a counter-model (see model)", false: "the solver produced no model (unknown/timeout/error)"}[r.Status == "sat"],
		}
		confirmed := false
		if r.Status == "sat" && r.Expect == "unsat" {
			if out, ok := tryReplay(rs.eng, r); out != "" {
				rep["replay_output"] = out
				rep["replay_confirmed"] = ok
				confirmed = ok
			}
		}
		b, _ := json.MarshalIndent(rep, "", " ")
		os.WriteFile(path, b, 0o644)
		if r.query != "" {
			os.WriteFile(strings.TrimSuffix(path, ".json")+".smt2", []byte(r.query), 0o644)
		}
		suffix := ""
		if !confirmed {
			suffix = " no-failing-input-found"
		}
		fmt.Printf("VIOLATION property=%s replay=%s obligation=%s status=%s%s\n", rs.prop, path, full, r.Status, suffix)
	}
	for _, e := range rs.genErrs {
		violations++
		path := filepath.Join(rs.replayDir, rs.prop, "generation-error.json")
		b, _ := json.MarshalIndent(map[string]interface{}{"property": rs.prop, "obligation": "engine/generation", "error": e}, "", " ")
		os.WriteFile(path, b, 0o644)
		fmt.Printf("VIOLATION property=%s replay=%s obligation=engine/generation no-failing-input-found\n", rs.prop, path)
	}
	// trusted base
	var trusted, abstracted, inlined, funcs, notes []string
	usedCon := map[string]bool{}
	for _, vc := range rs.vcs {
		funcs = append(funcs, shortFunc(vc.fn.String()))
		for k := range vc.usedCon {
			usedCon[k] = true
		}
		for k, n := range vc.abstracted {
			abstracted = append(abstracted, fmt.Sprintf("%s (x%d in %s)", k, n, shortFunc(vc.fn.String())))
		}
		for k := range vc.inlined {
			inlined = append(inlined, shortFunc(k))
		}
		notes = append(notes, vc.trustNotes...)
	}
	verified := map[string]bool{}
	for _, vc := range rs.vcs {
		verified[vc.fn.String()] = true
	}
	for k := range usedCon {
		c := rs.eng.ct.ByKey[k]
		switch {
		case c.Kind == "extern" || c.Kind == "iface":
			trusted = append(trusted, "assumed library contract: "+k)
		case c.Trusted:
			trusted = append(trusted, "assumed (trusted) contract of repository function, body not verified: "+shortFunc(k))
		case !verified[k]:
			trusted = append(trusted, "contract verified under another property's check (modular use here): "+shortFunc(k))
		}
	}
	axioms := []string{}
	for _, ax := range rs.eng.prelude.Axioms {
		axioms = append(axioms, ax.Name)
	}
	trusted = append(trusted, "prelude axioms (spec/prelude.smt2): "+strings.Join(axioms, ", "))
	trusted = append(trusted, uniqSorted(notes)...)
	sort.Strings(trusted)
	cov := map[string]interface{}{
		"obligations":              nObl,
		"discharged":               nOK,
		"checker_cmd":              rs.cmdline,
		"trusted_base":             uniqSorted(trusted),
		"samples":                  samples,
		"functions_under_contract": uniqSorted(funcs),
		"obligations_by_kind":      kinds,
		"per_solver":               perSolver,
		"solver_seconds":           solverSec,
		"abstracted_calls":         uniqSorted(abstracted),
		"inlined_callees":          uniqSorted(inlined),
		"cover_checks":             nCover,
		"known_findings_seen":      knownSeen,
		"explanation": "every obligation is an SMT query generated from the go/ssa form of /repo's current working tree and the //@ contracts in *_contracts_verif.go; " +
			"discharged = unsat from z3 5.1.0 / z3 4.8.12 / cvc5 1.0 (cover checks: not refutable)",
	}
	ev := Evidence{PropertyID: rs.prop, Tier: rs.tier, Seed: rs.seed, Level: "proof", Coverage: cov, Assumptions: modelAssumptions, WallS: rs.wall, Violations: violations}
	if rs.evidenceOut != "" {
		os.MkdirAll(filepath.Dir(rs.evidenceOut), 0o755)
		b, _ := json.MarshalIndent(ev, "", " ")
		os.WriteFile(rs.evidenceOut, b, 0o644)
	}
	fmt.Printf("property=%s tier=%s functions=%d obligations=%d discharged=%d violations=%d known=%d wall=%.1fs\n", rs.prop, rs.tier, len(rs.vcs), nObl, nOK, violations, len(knownSeen), rs.wall)
	if violations > 0 {
		return 1
	}
	return 0
}

// tryReplay runs a counter-model against the real code where an adapter exists.
func tryReplay(eng *Engine, r *OblResult) (output string, confirmed bool) {
	a := eng.adapterFor(r.Func)
	if a == nil || len(r.witness) == 0 {
		return "", false
	}
	vals := witnessValues(r.query, r.witness)
	if vals == nil {
		return "no witness values could be extracted from the model", false
	}
	return runReplay(eng.repo, a, vals)
}
