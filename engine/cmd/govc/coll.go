package main

// Maps, slices and strings.

import (
	"go/types"
)

func (vc *VC) mapKeyTerm(k Val) Term {
	switch k.K {
	case KIface:
		vc.decls.Fun("ikey", []Sort{SInt, SInt}, SInt)
		vc.decls.Fun("ikey.tag", []Sort{SInt}, SInt)
		vc.decls.Fun("ikey.val", []Sort{SInt}, SInt)
		return App(SInt, "ikey", k.Tag, k.T)
	case KStruct:
		vc.unsupported("struct-valued map key")
		return vc.freshInt("structkey")
	}
	return k.T
}

func mapKeySort(mt *types.Map) Sort {
	switch kindOf(mt.Key()) {
	case KStr:
		return SStr
	case KBool:
		return SBool
	}
	return SInt
}

func (vc *VC) mapDomArrName(mt types.Type) string { return "MapDom." + typeKey(mt) }

func (vc *VC) mapDomArr(st *State, m Val) Term {
	mt := m.Typ.Underlying().(*types.Map)
	arr := vc.heapGet(st, vc.mapDomArrName(m.Typ), ArrSort(SInt, ArrSort(mapKeySort(mt), SBool)))
	return Select(arr, m.T)
}

func (vc *VC) mapValArr(st *State, m Val) Term {
	mt := m.Typ.Underlying().(*types.Map)
	ls := leavesOf(mt.Elem())
	arr := vc.heapGet(st, "MapVal."+typeKey(m.Typ)+ls[0].suffix, ArrSort(SInt, ArrSort(mapKeySort(mt), ls[0].sort)))
	return Select(arr, m.T)
}

func (vc *VC) mapGet(st *State, m Val, k Val, mt *types.Map) (Term, Val) {
	ks := mapKeySort(mt)
	kt := vc.mapKeyTerm(k)
	dom := vc.heapGet(st, vc.mapDomArrName(m.Typ), ArrSort(SInt, ArrSort(ks, SBool)))
	ok := And(Ne(m.T, IntLit(0)), Select(Select(dom, m.T), kt))
	et := mt.Elem()
	if sst, isStruct := structOf(et); isStruct {
		if sst.NumFields() == 0 {
			return ok, Val{K: KStruct, Typ: et} // set-like map: struct{} carries nothing
		}
		vc.unsupported("map with struct values")
		return ok, vc.freshVal(et, "mapval")
	}
	ls := leavesOf(et)
	ts := make([]Term, len(ls))
	for i, l := range ls {
		arr := vc.heapGet(st, "MapVal."+typeKey(m.Typ)+l.suffix, ArrSort(SInt, ArrSort(ks, l.sort)))
		ts[i] = Ite(ok, Select(Select(arr, m.T), kt), vc.zeroOfSort(l.sort))
	}
	return ok, buildFromLeaves(et, ts)
}

func (vc *VC) mapSet(st *State, m Val, k Val, v Val, mt *types.Map) {
	ks := mapKeySort(mt)
	kt := vc.mapKeyTerm(k)
	dn := vc.mapDomArrName(m.Typ)
	dom := vc.heapGet(st, dn, ArrSort(SInt, ArrSort(ks, SBool)))
	vc.heapSet(st, dn, vc.nameTerm(Store(dom, m.T, Store(Select(dom, m.T), kt, True)), smtName(dn)))
	et := mt.Elem()
	if sst, isStruct := structOf(et); isStruct {
		if sst.NumFields() != 0 {
			vc.unsupported("map with struct values")
		}
		return
	}
	for _, l := range leavesOf(et) {
		name := "MapVal." + typeKey(m.Typ) + l.suffix
		arr := vc.heapGet(st, name, ArrSort(SInt, ArrSort(ks, l.sort)))
		val := l.get(v)
		if val.IsZero() {
			val = vc.zeroOfSort(l.sort)
		}
		vc.heapSet(st, name, vc.nameTerm(Store(arr, m.T, Store(Select(arr, m.T), kt, val)), smtName(name)))
	}
}

func (vc *VC) mapDelete(st *State, m Val, k Val, mt *types.Map) {
	ks := mapKeySort(mt)
	kt := vc.mapKeyTerm(k)
	dn := vc.mapDomArrName(m.Typ)
	dom := vc.heapGet(st, dn, ArrSort(SInt, ArrSort(ks, SBool)))
	vc.heapSet(st, dn, vc.nameTerm(Store(dom, m.T, Store(Select(dom, m.T), kt, False)), smtName(dn)))
}

// mapLen is the cardinality of the domain, an uninterpreted measure of the
// domain array.
func (vc *VC) mapLen(st *State, m Val) Term {
	mt := m.Typ.Underlying().(*types.Map)
	ks := mapKeySort(mt)
	fn := "map.card." + string(smtName(string(ks)))
	vc.decls.Fun(fn, []Sort{ArrSort(ks, SBool)}, SInt)
	t := App(SInt, fn, vc.mapDomArr(st, m))
	f := "card:" + t.S
	if !vc.facts[f] {
		vc.facts[f] = true
		vc.assumeRaw(Le(IntLit(0), t))
	}
	return t
}

// ---------------------------------------------------------------------------
// slices

func (vc *VC) elemAddr(s Val, idx Term, et types.Type) Val {
	abs := Add(s.Off, idx)
	if s.Off.S == "0" {
		abs = idx
	}
	if kindOf(et) == KStruct || kindOf(et) == KArray {
		return Val{K: KPtr, T: vc.elemObj(s.T, abs, typeKey(et)), Typ: types.NewPointer(et)}
	}
	return Val{K: KPtr, T: s.T, Path: []PathEl{{IsIdx: true, Idx: abs}}, Typ: types.NewPointer(et)}
}

func (vc *VC) loadElem(st *State, s Val, idx Term, et types.Type) Val {
	return vc.load(st, vc.elemAddr(s, idx, et), et)
}

// sliceSet is the set of element values of a slice: sset(E, off, len) stands for
// { E[k] | off <= k < off+len } where E is the current content of the slice's backing
// array. It is a function of the contents, so it says nothing once an element is
// overwritten; append (and len 0) are the only places that constrain it.
func (vc *VC) sliceSet(st *State, s Val) Term {
	et := s.Typ.Underlying().(*types.Slice).Elem()
	name := "Elem." + typeKey(et)
	A := vc.heapGet(st, name, ArrSort(SInt, ArrSort(SInt, SInt)))
	return vc.sliceSetOf(Select(A, s.T), s.Off, s.Len)
}

func (vc *VC) sliceSetOf(content, off, ln Term) Term {
	vc.decls.Fun("sset", []Sort{ArrSort(SInt, SInt), SInt, SInt}, ArrSort(SInt, SBool))
	t := App(ArrSort(SInt, SBool), "sset", content, off, ln)
	if k := "sset0:" + t.S; !vc.facts[k] && vc.qdepth == 0 {
		// the content set of an empty slice is empty
		vc.facts[k] = true
		empty := Eq(t, Term{"((as const (Array Int Bool)) false)", ArrSort(SInt, SBool)})
		if ln.S == "0" {
			vc.assumeRaw(empty)
		} else {
			vc.assumeRaw(Implies(Eq(ln, IntLit(0)), empty))
		}
	}
	return t
}

func (vc *VC) strSub(s, lo, hi Term) Term {
	vc.decls.Fun("gstr.sub", []Sort{SStr, SInt, SInt}, SStr)
	t := App(SStr, "gstr.sub", s, lo, hi)
	f := "sub:" + t.S
	if !vc.facts[f] {
		vc.facts[f] = true
		l := vc.strLen(s)
		vc.assumeRaw(Implies(And(Le(IntLit(0), lo), Le(lo, hi), Le(hi, l)), Eq(vc.strLen(t), Sub(hi, lo))))
		vc.assumeRaw(Implies(And(Eq(lo, IntLit(0)), Eq(hi, l)), Eq(t, s)))
	}
	return t
}
