package main

// Evaluation of contract expressions to symbolic values.

import (
	"fmt"
	"go/constant"
	"go/types"
	"strconv"
	"os"
	"strings"

	"golang.org/x/tools/go/ssa"
)

type SpecEnv struct {
	vc   *VC
	f    *Frame
	vars map[string]Val
	cur  *State
	old  *State
	at   *ssa.BasicBlock
	atI  ssa.Instruction
	pkg  *types.Package
}

type specErr struct{ msg string }

func (e *SpecEnv) fail(format string, a ...interface{}) {
	panic(specErr{fmt.Sprintf(format, a...)})
}

func (e *SpecEnv) with(vars map[string]Val) *SpecEnv {
	n := *e
	n.vars = map[string]Val{}
	for k, v := range e.vars {
		n.vars[k] = v
	}
	for k, v := range vars {
		n.vars[k] = v
	}
	return &n
}

func nilVal() Val { return Val{K: KPtr, T: IntLit(0)} }

func isNilLit(v Val) bool { return v.K == KPtr && v.Typ == nil && v.T.S == "0" && len(v.Path) == 0 }

func (vc *VC) isNil(v Val) Term {
	switch v.K {
	case KIface:
		return Eq(v.Tag, IntLit(0))
	case KSlice:
		return Eq(v.T, IntLit(0))
	case KPtr:
		if len(v.Path) != 0 {
			return False
		}
		return Eq(v.T, IntLit(0))
	case KMap, KChan, KFunc, KInt, KSpec:
		if v.K == KFunc && v.Fn != nil {
			return False
		}
		return Eq(v.T, IntLit(0))
	}
	return False
}

func (vc *VC) valEq(a, b Val) Term {
	if isNilLit(a) {
		return vc.isNil(b)
	}
	if isNilLit(b) {
		return vc.isNil(a)
	}
	switch a.K {
	case KIface:
		if b.K == KIface {
			return And(Eq(a.Tag, b.Tag), Eq(a.T, b.T))
		}
	case KSlice:
		if b.K == KSlice {
			return And(Eq(a.T, b.T), Eq(a.Off, b.Off), Eq(a.Len, b.Len), Eq(a.Cap, b.Cap))
		}
	case KStruct, KTuple:
		var cs []Term
		for i := range a.Fs {
			if i < len(b.Fs) {
				cs = append(cs, vc.valEq(a.Fs[i], b.Fs[i]))
			}
		}
		return And(cs...)
	case KPtr:
		if len(a.Path) != len(b.Path) {
			return False
		}
		if len(a.Path) == 1 {
			pa, pb := a.Path[0], b.Path[0]
			if pa.IsIdx != pb.IsIdx {
				return False
			}
			if pa.IsIdx {
				return And(Eq(a.T, b.T), Eq(pa.Idx, pb.Idx))
			}
			if pa.SKey != pb.SKey || pa.Field != pb.Field {
				return False
			}
		}
		return Eq(a.T, b.T)
	}
	if a.T.Sort != b.T.Sort {
		// Bool vs Int mismatch etc.
		return vc.freshBool("illtyped.eq")
	}
	return Eq(a.T, b.T)
}

func (vc *VC) iteVal(c Term, a, b Val) Val {
	if c.S == "true" {
		return a
	}
	if c.S == "false" {
		return b
	}
	r := a
	switch a.K {
	case KStruct, KTuple:
		r.Fs = make([]Val, len(a.Fs))
		for i := range a.Fs {
			if i < len(b.Fs) {
				r.Fs[i] = vc.iteVal(c, a.Fs[i], b.Fs[i])
			} else {
				r.Fs[i] = a.Fs[i]
			}
		}
		return r
	case KSlice:
		if b.K != KSlice {
			return a
		}
		r.T = Ite(c, a.T, b.T)
		r.Off = Ite(c, a.Off, b.Off)
		r.Len = Ite(c, a.Len, b.Len)
		r.Cap = Ite(c, a.Cap, b.Cap)
		return r
	case KIface:
		if b.K != KIface {
			return a
		}
		r.Tag = Ite(c, a.Tag, b.Tag)
		r.T = Ite(c, a.T, b.T)
		return r
	case KPtr:
		if len(a.Path) != len(b.Path) || (len(a.Path) == 1 && (a.Path[0].IsIdx != b.Path[0].IsIdx || a.Path[0].SKey != b.Path[0].SKey || a.Path[0].Field != b.Path[0].Field)) {
			// allow nil on either side
			if b.T.S == "0" && len(b.Path) == 0 {
				// nil vs interior pointer: keep a's shape, mark root 0 when !c
				r.T = Ite(c, a.T, IntLit(0))
				return r
			}
			if a.T.S == "0" && len(a.Path) == 0 {
				r = b
				r.T = Ite(c, IntLit(0), b.T)
				return r
			}
			vc.unsupported("merge of differently shaped pointers")
			r.T = vc.freshInt("ptrmerge")
			r.Path = nil
			return r
		}
		r.T = Ite(c, a.T, b.T)
		if len(a.Path) == 1 && a.Path[0].IsIdx {
			r.Path = []PathEl{{IsIdx: true, Idx: Ite(c, a.Path[0].Idx, b.Path[0].Idx)}}
		}
		return r
	case KFunc:
		if a.Fn != nil && a.Fn == b.Fn && len(a.Binds) == len(b.Binds) {
			r.Binds = make([]Val, len(a.Binds))
			for i := range a.Binds {
				r.Binds[i] = vc.iteVal(c, a.Binds[i], b.Binds[i])
			}
			return r
		}
		if a.Fn != nil || b.Fn != nil {
			r.Fn = nil
			r.Binds = nil
			if a.T.S != "" && b.T.S != "" && a.T.Sort == b.T.Sort {
				// the identity of the function value survives the merge (the callee does not)
				r.T = Ite(c, a.T, b.T)
			} else {
				r.T = vc.freshInt("funcmerge")
			}
			return r
		}
	}
	if a.T.Sort != b.T.Sort || a.T.S == "" || b.T.S == "" {
		return a
	}
	r.T = Ite(c, a.T, b.T)
	return r
}

func specSort(name string) (Sort, bool) {
	switch name {
	case "Int", "int", "int64", "Ref":
		return SInt, true
	case "Bool", "bool":
		return SBool, true
	case "GStr", "string":
		return SStr, true
	case "GSeq":
		return Sort("GSeq"), true
	case "GBytes":
		return Sort("GBytes"), true
	case "GSet":
		return ArrSort(SInt, SBool), true
	case "IntArr":
		return ArrSort(SInt, SInt), true
	}
	return "", false
}

func (e *SpecEnv) lookupType(name string) types.Type {
	if strings.HasPrefix(name, "[]") {
		if t := e.lookupType(name[2:]); t != nil {
			return types.NewSlice(t)
		}
		return nil
	}
	if strings.HasPrefix(name, "*[]") || strings.HasPrefix(name, "**") {
		if t := e.lookupType(name[1:]); t != nil {
			return types.NewPointer(t)
		}
		return nil
	}
	ptr := false
	if strings.HasPrefix(name, "*") {
		ptr = true
		name = name[1:]
	}
	var obj types.Object
	if k := strings.LastIndex(name, "."); k >= 0 {
		pk, tn := name[:k], name[k+1:]
		best := 0
		for _, p := range e.vc.eng.prog.AllPackages() {
			score := 0
			switch {
			case p.Pkg.Path() == pk:
				score = 4
			case e.pkg != nil && (p.Pkg.Name() == pk) && importsPkg(e.pkg, p.Pkg):
				score = 3
			case (p.Pkg.Name() == pk || strings.HasSuffix(p.Pkg.Path(), "/"+pk)) && strings.HasPrefix(p.Pkg.Path(), modulePath):
				score = 2
			case p.Pkg.Name() == pk || strings.HasSuffix(p.Pkg.Path(), "/"+pk):
				score = 1
			}
			if score > best {
				if o := p.Pkg.Scope().Lookup(tn); o != nil {
					obj = o
					best = score
				}
			}
		}
	} else if e.pkg != nil {
		obj = e.pkg.Scope().Lookup(name)
		if obj == nil {
			obj = types.Universe.Lookup(name)
		}
	}
	if obj == nil {
		return nil
	}
	tn, ok := obj.(*types.TypeName)
	if !ok {
		return nil
	}
	if ptr {
		return types.NewPointer(tn.Type())
	}
	return tn.Type()
}

func importsPkg(a, b *types.Package) bool {
	for _, i := range a.Imports() {
		if i == b {
			return true
		}
	}
	return false
}

func constVal(vc *VC, c *types.Const) Val {
	v := c.Val()
	switch v.Kind() {
	case constant.Int:
		return Val{K: KInt, T: BigLit(v.ExactString()), Typ: c.Type()}
	case constant.Bool:
		if constant.BoolVal(v) {
			return Val{K: KBool, T: True, Typ: c.Type()}
		}
		return Val{K: KBool, T: False, Typ: c.Type()}
	case constant.String:
		return Val{K: KStr, T: vc.strLit(constant.StringVal(v)), Typ: c.Type()}
	}
	return Val{K: KInt, T: vc.freshInt("const"), Typ: c.Type()}
}

func (e *SpecEnv) ident(name string) Val {
	if v, ok := e.vars[name]; ok {
		return v
	}
	if e.f != nil {
		// variables that live in memory are read in the state this expression is evaluated in
		saved := e.f.entrySt
		if e.cur != nil {
			e.f.entrySt = e.cur
		}
		v, ok := e.f.lookupName(name, e.at, e.atI)
		e.f.entrySt = saved
		if ok {
			if os.Getenv("GOVC_DEBUG_NAME") == name {
				fmt.Fprintf(os.Stderr, "DEBUG ident %s at=%v -> K=%d T=%s cur.Cell.bool=%s\n", name, e.at, v.K, v.T.S, e.cur.H["Cell.bool"].S)
			}
			return v
		}
	}
	if g, ok := e.vc.eng.ct.Ghosts[name]; ok {
		return Val{K: KSpec, T: e.vc.heapGet(e.cur, "G."+name, g.Sort)}
	}
	if e.pkg != nil {
		if o := e.pkg.Scope().Lookup(name); o != nil {
			switch x := o.(type) {
			case *types.Const:
				return constVal(e.vc, x)
			case *types.Var:
				p := e.vc.globalAddr(x)
				return e.vc.load(e.cur, p, x.Type())
			}
		}
	}
	if e.f != nil && e.at != nil {
		// a local variable of this function that is not in scope at this point (its definition does
		// not dominate it): its value here is arbitrary
		for _, b := range e.f.fn.Blocks {
			for _, in := range b.Instrs {
				switch x := in.(type) {
				case *ssa.Alloc:
					if x.Comment == name {
						return e.vc.freshVal(derefType(x.Type()), "outofscope."+name)
					}
				case *ssa.Phi:
					if x.Comment == name {
						return e.vc.freshVal(x.Type(), "outofscope."+name)
					}
				case *ssa.DebugRef:
					if x.Object() != nil && x.Object().Name() == name && !x.IsAddr {
						return e.vc.freshVal(x.X.Type(), "outofscope."+name)
					}
				}
			}
		}
	}
	e.fail("unknown identifier %q", name)
	return Val{}
}

func (vc *VC) globalAddr(v *types.Var) Val {
	name := "glob." + v.Pkg().Path() + "." + v.Name()
	t := vc.decls.Const(smtName(name), SInt)
	k := "glob:" + name
	if !vc.facts[k] {
		vc.facts[k] = true
		vc.assumeRaw(Gt(t, IntLit(0)))
	}
	return Val{K: KPtr, T: t, Typ: types.NewPointer(v.Type())}
}

func (e *SpecEnv) term(v Val) Term {
	switch v.K {
	case KPtr:
		if len(v.Path) != 0 {
			e.fail("interior pointer used as a term")
		}
		return v.T
	case KIface:
		e.fail("interface value used as a scalar term (use .(T) / as())")
	case KSlice, KStruct, KTuple:
		e.fail("composite value used as a scalar term")
	}
	return v.T
}

func (e *SpecEnv) boolTerm(v Val) Term {
	if v.T.Sort != SBool {
		e.fail("expected a boolean, got sort %s (%s)", v.T.Sort, v.T.S)
	}
	return v.T
}

func findField(s *types.Struct, name string) int {
	for i := 0; i < s.NumFields(); i++ {
		if s.Field(i).Name() == name {
			return i
		}
	}
	return -1
}

func derefType(t types.Type) types.Type {
	if t == nil {
		return nil
	}
	if p, ok := t.Underlying().(*types.Pointer); ok {
		return p.Elem()
	}
	return nil
}

func (e *SpecEnv) sel(x Val, fname string) Val {
	vc := e.vc
	switch x.K {
	case KPtr:
		et := derefType(x.Typ)
		if et == nil {
			e.fail("field %s of untyped pointer", fname)
		}
		s, ok := structOf(et)
		if !ok {
			e.fail("field %s of non-struct pointer %s", fname, x.Typ)
		}
		skey := typeKey(et)
		if gf, ok := vc.eng.ct.GhostFields[skey+"."+fname]; ok {
			arr := vc.heapGet(e.cur, "G."+skey+"."+fname, ArrSort(SInt, gf.Sort))
			return Val{K: KSpec, T: Select(arr, x.T)}
		}
		i := findField(s, fname)
		if i < 0 {
			// promoted through embedded struct
			for j := 0; j < s.NumFields(); j++ {
				if s.Field(j).Embedded() {
					if es, ok := structOf(s.Field(j).Type()); ok && findField(es, fname) >= 0 {
						sub := vc.fieldAddr(x, s, skey, j)
						return e.sel(sub, fname)
					}
				}
			}
			e.fail("no field %s in %s", fname, skey)
		}
		fa := vc.fieldAddr(x, s, skey, i)
		ft := s.Field(i).Type()
		if kindOf(ft) == KStruct || kindOf(ft) == KArray {
			return fa // by reference
		}
		return vc.load(e.cur, fa, ft)
	case KStruct:
		s, _ := structOf(x.Typ)
		i := findField(s, fname)
		if i < 0 || i >= len(x.Fs) {
			e.fail("no field %s in struct value %s", fname, x.Typ)
		}
		return x.Fs[i]
	}
	e.fail("selector .%s on value of kind %d", fname, x.K)
	return Val{}
}

func (e *SpecEnv) Eval(x SExpr) Val {
	vc := e.vc
	switch n := x.(type) {
	case SIntLit:
		v, err := strconv.ParseInt(n.V, 0, 64)
		if err != nil {
			// big literal
			return Val{K: KInt, T: BigLit(n.V)}
		}
		return Val{K: KInt, T: IntLit(v)}
	case SBoolLit:
		if n.V {
			return Val{K: KBool, T: True}
		}
		return Val{K: KBool, T: False}
	case SStrLit:
		return Val{K: KStr, T: vc.strLit(n.V)}
	case SNil:
		return nilVal()
	case SIdent:
		return e.ident(n.Name)
	case SHeapArr:
		return e.heapArr(n.Path)
	case SSel:
		// package-qualified constant?
		if id, ok := n.X.(SIdent); ok {
			if _, bound := e.vars[id.Name]; !bound && e.pkg != nil {
				isLocal := false
				if e.f != nil {
					_, isLocal = e.f.lookupName(id.Name, e.at, e.atI)
				}
				if !isLocal {
					cands := append([]*types.Package{}, e.pkg.Imports()...)
					for _, p := range vc.eng.prog.AllPackages() {
						// fallback: a standard-library package named by its full path
						if p.Pkg.Path() == id.Name {
							cands = append(cands, p.Pkg)
						}
					}
					for _, imp := range cands {
						if imp.Name() == id.Name {
							if o := imp.Scope().Lookup(n.F); o != nil {
								switch c := o.(type) {
								case *types.Const:
									return constVal(vc, c)
								case *types.Var:
									return vc.load(e.cur, vc.globalAddr(c), c.Type())
								}
							}
						}
					}
				}
			}
		}
		return e.sel(e.Eval(n.X), n.F)
	case SIndex:
		b := e.Eval(n.X)
		i := e.Eval(n.I)
		switch b.K {
		case KSlice:
			et := b.Typ.Underlying().(*types.Slice).Elem()
			return vc.loadElem(e.cur, b, e.term(i), et)
		case KMap:
			mt := b.Typ.Underlying().(*types.Map)
			_, v := vc.mapGet(e.cur, b, i, mt)
			return v
		case KStr:
			vc.decls.Fun("gstr.at", []Sort{SStr, SInt}, SInt)
			return Val{K: KInt, T: App(SInt, "gstr.at", b.T, e.term(i))}
		case KSpec:
			return Val{K: KSpec, T: Select(b.T, e.term(i))}
		}
		e.fail("index of kind %d", b.K)
	case SSlice:
		b := e.Eval(n.X)
		if b.K == KStr {
			lo := IntLit(0)
			hi := vc.strLen(b.T)
			if n.Lo != nil {
				lo = e.term(e.Eval(n.Lo))
			}
			if n.Hi != nil {
				hi = e.term(e.Eval(n.Hi))
			}
			return Val{K: KStr, T: vc.strSub(b.T, lo, hi)}
		}
		e.fail("slice expression on kind %d", b.K)
	case SCond:
		c := e.boolTerm(e.Eval(n.C))
		return vc.iteVal(c, e.Eval(n.A), e.Eval(n.B))
	case SUn:
		if n.Op == "&" {
			if id, ok := n.X.(SIdent); ok && e.f != nil {
				if v, ok := e.f.lookupAddr(id.Name, e.at); ok {
					return v
				}
			}
			if sel, ok := n.X.(SSel); ok {
				// &p.f: the address of a field of the struct p points to
				x := e.Eval(sel.X)
				if x.K == KPtr {
					if et := derefType(x.Typ); et != nil {
						if st, ok := structOf(et); ok {
							if i := findField(st, sel.F); i >= 0 {
								return vc.fieldAddr(x, st, typeKey(et), i)
							}
						}
					}
				}
			}
			e.fail("cannot take the address of %s", specString(n.X))
		}
		v := e.Eval(n.X)
		switch n.Op {
		case "!":
			return Val{K: KBool, T: Not(e.boolTerm(v))}
		case "-":
			return Val{K: KInt, T: App(SInt, "-", e.term(v))}
		}
		e.fail("unary %s", n.Op)
	case SBin:
		switch n.Op {
		case "&&":
			return Val{K: KBool, T: And(e.boolTerm(e.Eval(n.X)), e.boolTerm(e.Eval(n.Y)))}
		case "||":
			return Val{K: KBool, T: Or(e.boolTerm(e.Eval(n.X)), e.boolTerm(e.Eval(n.Y)))}
		case "==>":
			return Val{K: KBool, T: Implies(e.boolTerm(e.Eval(n.X)), e.boolTerm(e.Eval(n.Y)))}
		case "<==>":
			return Val{K: KBool, T: Eq(e.boolTerm(e.Eval(n.X)), e.boolTerm(e.Eval(n.Y)))}
		case "==":
			return Val{K: KBool, T: vc.valEq(e.Eval(n.X), e.Eval(n.Y))}
		case "!=":
			return Val{K: KBool, T: Not(vc.valEq(e.Eval(n.X), e.Eval(n.Y)))}
		}
		a := e.Eval(n.X)
		b := e.Eval(n.Y)
		if a.K == KStr && n.Op == "+" {
			return Val{K: KStr, T: vc.strCat(a.T, b.T)}
		}
		at, bt := e.term(a), e.term(b)
		switch n.Op {
		case "<":
			return Val{K: KBool, T: Lt(at, bt)}
		case "<=":
			return Val{K: KBool, T: Le(at, bt)}
		case ">":
			return Val{K: KBool, T: Gt(at, bt)}
		case ">=":
			return Val{K: KBool, T: Ge(at, bt)}
		case "+":
			return Val{K: KInt, T: Add(at, bt)}
		case "-":
			return Val{K: KInt, T: Sub(at, bt)}
		case "*":
			return Val{K: KInt, T: Mul(at, bt)}
		case "/":
			return Val{K: KInt, T: App(SInt, "div", at, bt)}
		case "%":
			return Val{K: KInt, T: App(SInt, "mod", at, bt)}
		case "<<":
			if isLiteral(bt) {
				k, _ := strconv.Atoi(bt.S)
				p := "1"
				for i := 0; i < k; i++ {
					p = mulDec2(p)
				}
				return Val{K: KInt, T: Mul(at, BigLit(p))}
			}
		}
		e.fail("binary operator %s", n.Op)
	case SQuant:
		vc.qdepth++
		defer func() { vc.qdepth-- }()
		vars := map[string]Val{}
		var binders []string
		for _, v := range n.Vars {
			name := vc.freshName("bv$" + v.Name)
			if s, ok := specSort(v.Sort); ok {
				k := KSpec
				if s == SInt {
					k = KInt
				} else if s == SBool {
					k = KBool
				} else if s == SStr {
					k = KStr
				}
				vars[v.Name] = Val{K: k, T: Term{name, s}}
				binders = append(binders, "("+name+" "+string(s)+")")
			} else if t := e.lookupType(v.Sort); t != nil {
				if _, isStruct := structOf(t); isStruct {
					t = types.NewPointer(t)
				}
				vars[v.Name] = Val{K: kindOf(t), T: Term{name, sortOfKind(kindOf(t))}, Typ: t}
				binders = append(binders, "("+name+" "+string(sortOfKind(kindOf(t)))+")")
			} else {
				e.fail("unknown sort %q of bound variable", v.Sort)
			}
		}
		body := e.with(vars).Eval(n.Body)
		q := "exists"
		if n.Forall {
			q = "forall"
		}
		return Val{K: KBool, T: Term{"(" + q + " (" + strings.Join(binders, " ") + ") " + e.boolTerm(body).S + ")", SBool}}
	case SCall:
		return e.call(n)
	}
	e.fail("cannot evaluate %s", specString(x))
	return Val{}
}

func mulDec2(s string) string {
	// multiply decimal string by 2
	carry := 0
	out := make([]byte, 0, len(s)+1)
	for i := len(s) - 1; i >= 0; i-- {
		d := int(s[i]-'0')*2 + carry
		out = append(out, byte('0'+d%10))
		carry = d / 10
	}
	if carry > 0 {
		out = append(out, byte('0'+carry))
	}
	for i, j := 0, len(out)-1; i < j; i, j = i+1, j-1 {
		out[i], out[j] = out[j], out[i]
	}
	return string(out)
}

func (e *SpecEnv) heapArr(path string) Val {
	// Type.field[.leaf]  or pkg.Type.field
	parts := strings.Split(path, ".")
	for cut := len(parts) - 1; cut >= 1; cut-- {
		tname := strings.Join(parts[:cut], ".")
		t := e.lookupType(tname)
		if t == nil {
			continue
		}
		s, ok := structOf(t)
		if !ok {
			continue
		}
		skey := typeKey(t)
		fname := parts[cut]
		if gf, ok := e.vc.eng.ct.GhostFields[skey+"."+fname]; ok {
			return Val{K: KSpec, T: e.vc.heapGet(e.cur, "G."+skey+"."+fname, ArrSort(SInt, gf.Sort))}
		}
		i := findField(s, fname)
		if i < 0 {
			e.fail("no field %s in %s", fname, tname)
		}
		ft := s.Field(i).Type()
		ls := leavesOf(ft)
		suffix := ""
		if cut+1 < len(parts) {
			suffix = "." + parts[cut+1]
		}
		for _, l := range ls {
			if l.suffix == suffix {
				return Val{K: KSpec, T: e.vc.heapGet(e.cur, fieldArrName(skey, fname)+suffix, ArrSort(SInt, l.sort))}
			}
		}
		e.fail("no leaf %q for field %s", suffix, path)
	}
	e.fail("cannot resolve heap array #%s", path)
	return Val{}
}

func (e *SpecEnv) call(n SCall) Val {
	vc := e.vc
	switch n.Fn {
	case "old":
		if len(n.Args) != 1 {
			e.fail("old takes one argument")
		}
		o := *e
		o.cur = e.old
		return o.Eval(n.Args[0])
	case "len":
		v := e.Eval(n.Args[0])
		switch v.K {
		case KSlice:
			return Val{K: KInt, T: v.Len}
		case KStr:
			return Val{K: KInt, T: vc.strLen(v.T)}
		case KMap:
			return Val{K: KInt, T: vc.mapLen(e.cur, v)}
		}
		e.fail("len of kind %d", v.K)
	case "cap":
		v := e.Eval(n.Args[0])
		if v.K == KSlice {
			return Val{K: KInt, T: v.Cap}
		}
		e.fail("cap of non-slice")
	case "has":
		m := e.Eval(n.Args[0])
		k := e.Eval(n.Args[1])
		if m.K != KMap {
			e.fail("has() needs a map")
		}
		ok, _ := vc.mapGet(e.cur, m, k, m.Typ.Underlying().(*types.Map))
		return Val{K: KBool, T: ok}
	case "istype":
		v := e.Eval(n.Args[0])
		s, ok := n.Args[1].(SStrLit)
		if !ok || v.K != KIface {
			e.fail("istype(ifaceValue, \"type\")")
		}
		t := e.lookupType(s.V)
		if t == nil {
			e.fail("unknown type %q", s.V)
		}
		return Val{K: KBool, T: Eq(v.Tag, vc.typeTag(t))}
	case "as":
		v := e.Eval(n.Args[0])
		s, ok := n.Args[1].(SStrLit)
		if !ok || v.K != KIface {
			e.fail("as(ifaceValue, \"type\")")
		}
		t := e.lookupType(s.V)
		if t == nil {
			e.fail("unknown type %q", s.V)
		}
		return vc.unbox(v.T, t)
	case "iface":
		// iface(x): box a value into an interface (dynamic type = static type of x)
		v := e.Eval(n.Args[0])
		if v.Typ == nil {
			e.fail("iface() of untyped value")
		}
		return Val{K: KIface, Tag: vc.typeTag(v.Typ), T: vc.box(v)}
	case "strkey":
		// the interface{} holding string s (used for map[interface{}] keys)
		v := e.Eval(n.Args[0])
		st := types.Typ[types.String]
		return Val{K: KIface, Tag: vc.typeTag(st), T: vc.box(Val{K: KStr, T: v.T, Typ: st}), Typ: types.NewInterfaceType(nil, nil)}
	case "ref":
		v := e.Eval(n.Args[0])
		return Val{K: KInt, T: e.term(v)}
	case "allocatedAt":
		// allocatedAt(N, x): x was already allocated when the current iteration of loop N started
		nl, ok := n.Args[0].(SIntLit)
		if !ok || e.f == nil {
			e.fail("allocatedAt(<loop ordinal>, x)")
		}
		xv := e.Eval(n.Args[1])
		var ord int
		fmt.Sscanf(nl.V, "%d", &ord)
		for _, li := range e.f.loops {
			if li.ord == ord && li.headSt != nil {
				return Val{K: KBool, T: vc.isAllocated(li.headSt, e.term(xv))}
			}
		}
		e.fail("allocatedAt: loop %d has no explicit frame (loop modifies) or is not active here", ord)
	case "boundfn":
		// boundfn("(pkg.T).M", x): the identity of the method value x.M
		ms, ok := n.Args[0].(SStrLit)
		if !ok {
			e.fail("boundfn(\"(pkg.Type).Method\", receiver)")
		}
		xv := e.Eval(n.Args[1])
		name := boundFnName(ms.V)
		vc.decls.Fun(name, []Sort{SInt}, SInt)
		return Val{K: KInt, T: App(SInt, name, xv.T)}
	case "sentelem":
		// sentelem(s, k): the address of element k (absolute position) of slice s was contained in a value sent over a channel
		sv := e.Eval(n.Args[0])
		kv := e.Eval(n.Args[1])
		if sv.K != KSlice {
			e.fail("sentelem(slice, absolute index)")
		}
		set := vc.heapGet(e.cur, "G.sentRefs", ArrSort(SInt, SBool))
		return Val{K: KBool, T: Select(set, vc.elemKey(sv.T, e.term(kv)))}
	case "strbytes":
		// strbytes(s): the bytes of string s as an array (what []byte(s) holds)
		sv := e.Eval(n.Args[0])
		if sv.K != KStr {
			e.fail("strbytes() needs a string")
		}
		vc.decls.Fun("gstr.bytes", []Sort{SStr}, ArrSort(SInt, SInt))
		return Val{K: KSpec, T: App(ArrSort(SInt, SInt), "gstr.bytes", sv.T)}
	case "deref":
		// deref(p): the value stored at pointer p (current state)
		pv := e.Eval(n.Args[0])
		et := derefType(pv.Typ)
		if pv.K != KPtr || et == nil {
			e.fail("deref() needs a typed pointer")
		}
		return vc.load(e.cur, pv, et)
	case "ptr":
		// ptr(x, "pkg.Type"): view the reference x as a *pkg.Type
		xv := e.Eval(n.Args[0])
		ts, ok := n.Args[1].(SStrLit)
		if !ok {
			e.fail("ptr(x, \"Type\")")
		}
		t := e.lookupType(ts.V)
		if t == nil {
			e.fail("unknown type %q", ts.V)
		}
		return Val{K: KPtr, T: e.term(xv), Typ: types.NewPointer(t)}
	case "inSlice":
		// inSlice(s, x): x was among the elements of s at its last append (ghost content set)
		sv := e.Eval(n.Args[0])
		xv := e.Eval(n.Args[1])
		if sv.K != KSlice {
			e.fail("inSlice() needs a slice")
		}
		if k := kindOf(sv.Typ.Underlying().(*types.Slice).Elem()); k != KPtr && k != KFunc {
			e.fail("inSlice() needs a slice of pointers or function values")
		}
		return Val{K: KBool, T: Select(vc.sliceSet(e.cur, sv), e.term(xv))}
	case "offset", "arr":
		v := e.Eval(n.Args[0])
		if v.K != KSlice {
			e.fail("%s() needs a slice", n.Fn)
		}
		if n.Fn == "offset" {
			return Val{K: KInt, T: v.Off}
		}
		return Val{K: KInt, T: v.T}
	case "fieldowner":
		// fieldowner(p, "Type", "field"): the object whose struct-typed field `field` is *p
		v := e.Eval(n.Args[0])
		ts, ok1 := n.Args[1].(SStrLit)
		fs, ok2 := n.Args[2].(SStrLit)
		if !ok1 || !ok2 {
			e.fail("fieldowner(p, \"Type\", \"field\")")
		}
		t := e.lookupType(ts.V)
		if t == nil {
			e.fail("unknown type %q", ts.V)
		}
		inv := smtName("subinv." + typeKey(t) + "." + fs.V)
		vc.decls.Fun(inv, []Sort{SInt}, SInt)
		return Val{K: KPtr, T: App(SInt, inv, e.term(v)), Typ: types.NewPointer(t)}
	case "allocated":
		v := e.Eval(n.Args[0])
		return Val{K: KBool, T: vc.isAllocated(e.cur, e.term(v))}
	case "typetag":
		s, ok := n.Args[0].(SStrLit)
		if !ok {
			e.fail("typetag(\"type\")")
		}
		t := e.lookupType(s.V)
		if t == nil {
			e.fail("unknown type %q", s.V)
		}
		return Val{K: KInt, T: vc.typeTag(t)}
	case "tagof":
		v := e.Eval(n.Args[0])
		return Val{K: KInt, T: v.Tag}
	case "payload":
		v := e.Eval(n.Args[0])
		return Val{K: KInt, T: v.T}
	case "mapdom":
		m := e.Eval(n.Args[0])
		return Val{K: KSpec, T: vc.mapDomArr(e.cur, m)}
	case "mapval":
		m := e.Eval(n.Args[0])
		return Val{K: KSpec, T: vc.mapValArr(e.cur, m)}
	case "ikey":
		v := e.Eval(n.Args[0])
		return Val{K: KInt, T: vc.mapKeyTerm(v)}
	case "elems":
		v := e.Eval(n.Args[0])
		if v.K != KSlice {
			e.fail("elems() of non-slice")
		}
		et := v.Typ.Underlying().(*types.Slice).Elem()
		ls := leavesOf(et)
		name := "Elem." + typeKey(et) + ls[0].suffix
		arr := vc.heapGet(e.cur, name, ArrSort(SInt, ArrSort(SInt, ls[0].sort)))
		return Val{K: KSpec, T: Select(arr, v.T)}
	}
	if p, ok := vc.eng.ct.Preds[n.Fn]; ok {
		if len(p.Params) != len(n.Args) {
			e.fail("pred %s expects %d arguments", n.Fn, len(p.Params))
		}
		vars := map[string]Val{}
		for i, a := range n.Args {
			vars[p.Params[i]] = e.Eval(a)
		}
		// predicates see only their parameters (plus globals)
		ne := *e
		ne.vars = vars
		ne.f = nil
		if pk := vc.eng.pkgByPath(p.PkgPath); pk != nil {
			ne.pkg = pk
		}
		return ne.Eval(p.Body)
	}
	if f, ok := vc.eng.prelude.Funs[n.Fn]; ok {
		if len(f.Args) != len(n.Args) {
			e.fail("spec function %s expects %d arguments, got %d", n.Fn, len(f.Args), len(n.Args))
		}
		ts := make([]Term, len(n.Args))
		for i, a := range n.Args {
			v := e.Eval(a)
			ts[i] = e.term(v)
			if ts[i].Sort != f.Args[i] {
				e.fail("spec function %s argument %d: sort %s, want %s", n.Fn, i, ts[i].Sort, f.Args[i])
			}
		}
		k := KSpec
		switch f.Res {
		case SInt:
			k = KInt
		case SBool:
			k = KBool
		case SStr:
			k = KStr
		}
		if len(ts) == 0 {
			return Val{K: k, T: Term{n.Fn, f.Res}}
		}
		return Val{K: k, T: App(f.Res, n.Fn, ts...)}
	}
	e.fail("unknown function %s in contract", n.Fn)
	return Val{}
}

// evalBool evaluates a boolean contract expression, reporting problems as error.
func (e *SpecEnv) evalBool(x SExpr) (t Term, err error) {
	defer func() {
		if r := recover(); r != nil {
			if se, ok := r.(specErr); ok {
				err = fmt.Errorf("%s", se.msg)
				return
			}
			panic(r)
		}
	}()
	v := e.Eval(x)
	return e.boolTerm(v), nil
}

// goalParts decomposes a goal into local hypotheses and a conclusion,
// skolemising universally quantified variables in positive position.
func (e *SpecEnv) goalParts(x SExpr) (hyps []Term, goal Term, err error) {
	defer func() {
		if r := recover(); r != nil {
			if se, ok := r.(specErr); ok {
				err = fmt.Errorf("%s", se.msg)
				return
			}
			panic(r)
		}
	}()
	env := e
	for {
		switch n := x.(type) {
		case SBin:
			if n.Op == "==>" {
				hyps = append(hyps, env.boolTerm(env.Eval(n.X)))
				x = n.Y
				continue
			}
		case SQuant:
			if n.Forall {
				vars := map[string]Val{}
				for _, v := range n.Vars {
					if s, ok := specSort(v.Sort); ok {
						k := KSpec
						if s == SInt {
							k = KInt
						} else if s == SBool {
							k = KBool
						} else if s == SStr {
							k = KStr
						}
						vars[v.Name] = Val{K: k, T: env.vc.freshConst("sk."+v.Name, s)}
					} else if t := env.lookupType(v.Sort); t != nil {
						if _, isStruct := structOf(t); isStruct {
							t = types.NewPointer(t)
						}
						vars[v.Name] = Val{K: kindOf(t), T: env.vc.freshConst("sk."+v.Name, sortOfKind(kindOf(t))), Typ: t}
					} else {
						env.fail("unknown sort %q", v.Sort)
					}
				}
				env = env.with(vars)
				x = n.Body
				continue
			}
		}
		break
	}
	goal = env.boolTerm(env.Eval(x))
	return
}
