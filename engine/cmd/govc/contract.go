package main

// Parser for //@ contract blocks in *_contracts_verif.go files of /repo.

import (
	"fmt"
	"os"
	"path/filepath"
	"regexp"
	"sort"
	"strconv"
	"strings"
)

type Clause struct {
	Kind    string // requires ensures invariant decreases asserts assumes assume
	Tags    []string
	Label   string
	Expr    SExpr
	Src     string
	Loop    int
	Callee  string
	CallOrd int // -1 = every call
	Local   bool // lensures: not exported to callers
	AssumeOnly bool // loop n assume: assumed at the loop head, never proved
	File    string
	Line    int
}

type Contract struct {
	Kind       string // func extern iface
	Key        string
	PkgPath    string
	ParamNames []string // extern/iface: receiver first
	Serves     []string
	Requires   []Clause
	Ensures    []Clause
	Assumes    []Clause // function-level assumptions (trusted)
	SelfEns    []Clause // function literal: facts about the function value itself, assumed where the literal is evaluated (trusted)
	GMod       []SExpr  // ghost state updated by an event of this call (applied at call sites only)
	GEns       []Clause // definitional ghost updates (applied at call sites only, not proved in the body)
	AllowPanic bool
	Modifies   []SExpr
	ModifiesSrc []string
	LoopInv    map[int][]Clause
	LoopDec    map[int]Clause
	LoopStep   map[int][]Clause // asserted at every back edge only
	LoopMod    map[int][]SExpr
	CallCl     []Clause
	Trusted    bool // body not verified, contract assumed
	Inline     bool // always inline at call sites (no modular contract)
	Pure       bool // no heap effect (extern)
	NoBody     bool // verify nothing, use at call sites only
	NoSafety   bool // no-panic obligations of this function are not generated (assumed); only its contract clauses are checked
	NoFrame    bool // entry point whose frame is not specified (request handlers): no frame obligations; must not be called from code under contract
	File       string
	Line       int
	Sig        string
}

type GhostVar struct {
	Name string
	Sort Sort
	Init SExpr
}

type GhostField struct {
	TypeKey string // pkgpath.Type
	Name    string
	Sort    Sort
}

type ModSet struct {
	PkgPath string
	Name   string
	Params []string
	Items  []SExpr
}

type Pred struct {
	PkgPath string
	Name   string
	Params []string
	Body   SExpr
	Src    string
}

type ContractTable struct {
	ByKey       map[string]*Contract
	Ghosts      map[string]*GhostVar
	GhostFields map[string]*GhostField // key: pkgpath.Type.name
	Preds       map[string]*Pred
	ModSets     map[string]*ModSet
	Encapsulated map[string]bool
	ConstMaps    []*ConstMap
	ConstStrs    []*ConstStr
	Files       []string
	Axioms      []Clause
}

var tagRe = regexp.MustCompile(`^\[([A-Za-z0-9, ]*)\]`)
var labelRe = regexp.MustCompile(`^([A-Za-z_][A-Za-z0-9_\-]*):\s`)
var funcSigRe = regexp.MustCompile(`^func\s+(?:\(\s*(\w+)\s+(\*?)([\w.]+)\s*\)\s*)?([\w$]+)\s*(\(.*)?$`)

func modulePkgPath(repo, dir string) string {
	rel, _ := filepath.Rel(repo, dir)
	if rel == "." {
		return "github.com/buchgr/bazel-remote/v2"
	}
	return "github.com/buchgr/bazel-remote/v2/" + filepath.ToSlash(rel)
}

func LoadContracts(repo string, extraDirs ...string) (*ContractTable, error) {
	ct := &ContractTable{ByKey: map[string]*Contract{}, Ghosts: map[string]*GhostVar{}, GhostFields: map[string]*GhostField{}, Preds: map[string]*Pred{}}
	// ghosts maintained by the engine itself (channel sends, see VC.recordSend)
	ct.Ghosts["sendN"] = &GhostVar{Name: "sendN", Sort: SInt}
	ct.Ghosts["sentRefs"] = &GhostVar{Name: "sentRefs", Sort: ArrSort(SInt, SBool)}
	var files []string
	filepath.Walk(repo, func(p string, info os.FileInfo, err error) error {
		if err != nil {
			return nil
		}
		if info.IsDir() && (info.Name() == ".git" || info.Name() == "external" || info.Name() == "genproto") {
			return filepath.SkipDir
		}
		if !info.IsDir() && strings.HasSuffix(p, "_contracts_verif.go") {
			files = append(files, p)
		}
		return nil
	})
	sort.Strings(files)
	ct.Files = files
	for _, f := range files {
		if err := ct.parseFile(repo, f); err != nil {
			return nil, err
		}
	}
	return ct, nil
}

func (ct *ContractTable) parseFile(repo, file string) error {
	b, err := os.ReadFile(file)
	if err != nil {
		return err
	}
	pkgPath := modulePkgPath(repo, filepath.Dir(file))
	lines := strings.Split(string(b), "\n")
	// gather logical lines: a //@ line whose content starts with whitespace-continued '|' ... we use
	// the rule: a line "//@ ..." starts a new item when its first word is a keyword; otherwise it
	// continues the previous item.
	type item struct {
		text string
		line int
	}
	var items []item
	keywords := map[string]bool{"func": true, "extern": true, "iface": true, "ghost": true, "ghostfield": true, "pred": true,
		"requires": true, "ensures": true, "modifies": true, "serves": true, "loop": true, "call": true, "assume": true,
		"trusted": true, "inline": true, "pure": true, "nobody": true, "axiom": true, "end": true,
		"gmodifies": true, "gensures": true, "modset": true, "allowpanic": true, "encapsulated": true, "lensures": true, "constmap": true, "selfensures": true, "noframe": true, "nosafety": true, "conststr": true, "nostore": true}
	for i, l := range lines {
		t := strings.TrimSpace(l)
		if !strings.HasPrefix(t, "//@") {
			continue
		}
		c := strings.TrimSpace(t[3:])
		if c == "" {
			continue
		}
		// strip trailing " // comment"? keep simple: comments inside contracts use "--"
		if k := strings.Index(c, " -- "); k >= 0 {
			c = strings.TrimSpace(c[:k])
		}
		w := c
		if k := strings.IndexAny(c, " \t[("); k >= 0 {
			w = c[:k]
		}
		if keywords[w] {
			items = append(items, item{c, i + 1})
		} else if len(items) > 0 {
			items[len(items)-1].text += " " + c
		} else {
			return fmt.Errorf("%s:%d: continuation line without an item", file, i+1)
		}
	}
	var cur *Contract
	for _, it := range items {
		c := it.text
		w := c
		rest := ""
		if k := strings.IndexAny(c, " \t["); k >= 0 {
			w = c[:k]
			rest = strings.TrimSpace(c[k:])
			if c[k] == '[' {
				rest = c[k:]
			}
		}
		errf := func(format string, a ...interface{}) error {
			return fmt.Errorf("%s:%d: %s", file, it.line, fmt.Sprintf(format, a...))
		}
		parseTagged := func(rest string) (tags []string, label string, expr SExpr, src string, err error) {
			if m := tagRe.FindStringSubmatch(rest); m != nil {
				for _, t := range strings.Split(m[1], ",") {
					t = strings.TrimSpace(t)
					if t != "" {
						tags = append(tags, t)
					}
				}
				rest = strings.TrimSpace(rest[len(m[0]):])
			}
			if m := labelRe.FindStringSubmatch(rest); m != nil {
				label = m[1]
				rest = strings.TrimSpace(rest[len(m[0]):])
			}
			src = rest
			expr, err = ParseSpec(rest)
			return
		}
		switch w {
		case "func":
			m := funcSigRe.FindStringSubmatch(c)
			if m == nil {
				return errf("cannot parse func signature %q", c)
			}
			key := ""
			if m[3] != "" {
				if m[2] == "*" {
					key = "(*" + pkgPath + "." + m[3] + ")." + m[4]
				} else {
					key = "(" + pkgPath + "." + m[3] + ")." + m[4]
				}
			} else {
				key = pkgPath + "." + m[4]
			}
			cur = &Contract{Kind: "func", Key: key, PkgPath: pkgPath, LoopInv: map[int][]Clause{}, LoopDec: map[int]Clause{}, File: file, Line: it.line, Sig: c}
			if _, dup := ct.ByKey[key]; dup {
				return errf("duplicate contract for %s", key)
			}
			ct.ByKey[key] = cur
		case "extern", "iface":
			// extern <key>(p1, p2, ...)
			k := strings.LastIndex(rest, "(")
			if k < 0 || !strings.HasSuffix(rest, ")") {
				return errf("extern needs a parameter list: %q", rest)
			}
			key := strings.TrimSpace(rest[:k])
			var ps []string
			for _, p := range strings.Split(rest[k+1:len(rest)-1], ",") {
				p = strings.TrimSpace(p)
				if p != "" {
					ps = append(ps, p)
				}
			}
			cur = &Contract{Kind: w, Key: key, PkgPath: pkgPath, ParamNames: ps, LoopInv: map[int][]Clause{}, LoopDec: map[int]Clause{}, File: file, Line: it.line, Sig: c}
			if _, dup := ct.ByKey[key]; dup {
				return errf("duplicate contract for %s", key)
			}
			ct.ByKey[key] = cur
		case "ghost":
			// ghost name Sort [= init]
			fs := strings.Fields(rest)
			if len(fs) < 2 {
				return errf("ghost needs name and sort")
			}
			g := &GhostVar{Name: fs[0], Sort: Sort(fs[1])}
			if srt, ok := specSort(fs[1]); ok {
				g.Sort = srt
			}
			if k := strings.Index(rest, "="); k >= 0 {
				e, err := ParseSpec(rest[k+1:])
				if err != nil {
					return errf("%v", err)
				}
				g.Init = e
			}
			ct.Ghosts[g.Name] = g
			cur = nil
		case "ghostfield":
			// ghostfield pkg/path.Type.name Sort
			fs := strings.Fields(rest)
			if len(fs) != 2 {
				return errf("ghostfield needs Type.name and sort")
			}
			k := strings.LastIndex(fs[0], ".")
			tk := fs[0][:k]
			if !strings.Contains(tk, "/") && !strings.Contains(tk[:max(0, strings.LastIndex(tk, "."))], ".") && strings.Count(tk, ".") == 0 {
				tk = pkgPath + "." + tk
			}
			gf := &GhostField{TypeKey: tk, Name: fs[0][k+1:], Sort: Sort(fs[1])}
			ct.GhostFields[tk+"."+gf.Name] = gf
			cur = nil
		case "pred":
			// pred name(a, b) = expr
			k := strings.Index(rest, "(")
			k2 := strings.Index(rest, ")")
			k3 := strings.Index(rest, "=")
			if k < 0 || k2 < k || k3 < k2 {
				return errf("bad pred")
			}
			p := &Pred{Name: strings.TrimSpace(rest[:k]), Src: rest, PkgPath: pkgPath}
			for _, a := range strings.Split(rest[k+1:k2], ",") {
				a = strings.TrimSpace(a)
				if a != "" {
					p.Params = append(p.Params, a)
				}
			}
			e, err := ParseSpec(rest[k3+1:])
			if err != nil {
				return errf("%v", err)
			}
			p.Body = e
			ct.Preds[p.Name] = p
			cur = nil
		case "modset":
			// modset name(a, b) = loc, loc, ...
			k := strings.Index(rest, "(")
			k2 := strings.Index(rest, ")")
			k3 := strings.Index(rest, "=")
			if k < 0 || k2 < k || k3 < k2 {
				return errf("bad modset")
			}
			ms := &ModSet{Name: strings.TrimSpace(rest[:k]), PkgPath: pkgPath}
			for _, a := range strings.Split(rest[k+1:k2], ",") {
				a = strings.TrimSpace(a)
				if a != "" {
					ms.Params = append(ms.Params, a)
				}
			}
			for _, part := range splitTopLevel(rest[k3+1:], ',') {
				part = strings.TrimSpace(part)
				if part == "" {
					continue
				}
				e, err := ParseSpec(part)
				if err != nil {
					return errf("%v", err)
				}
				ms.Items = append(ms.Items, e)
			}
			if ct.ModSets == nil {
				ct.ModSets = map[string]*ModSet{}
			}
			ct.ModSets[ms.Name] = ms
			cur = nil
		case "conststr":
			// conststr[Cxx] fn:callee#k = "literal": in function fn of this package the k-th call (source order) of
			// callee passes exactly this constant string as its only constant-string argument
			cs := &ConstStr{PkgPath: pkgPath, File: file, Line: it.line, Src: c}
			r := rest
			if m := tagRe.FindStringSubmatch(r); m != nil {
				for _, t := range strings.Split(m[1], ",") {
					if t = strings.TrimSpace(t); t != "" {
						cs.Tags = append(cs.Tags, t)
					}
				}
				r = strings.TrimSpace(r[len(m[0]):])
			}
			k := strings.Index(r, "=")
			k1 := strings.Index(r, ":")
			k2 := strings.Index(r, "#")
			if k < 0 || k1 < 0 || k2 < k1 || k < k2 {
				return errf("conststr fn:callee#k = \"literal\"")
			}
			cs.Func = strings.TrimSpace(r[:k1])
			cs.Callee = strings.TrimSpace(r[k1+1 : k2])
			if _, err := fmt.Sscanf(strings.TrimSpace(r[k2+1:k]), "%d", &cs.Ord); err != nil {
				return errf("conststr: bad ordinal")
			}
			lit, err := strconv.Unquote(strings.TrimSpace(r[k+1:]))
			if err != nil {
				return errf("conststr: literal must be a Go string literal: %v", err)
			}
			cs.Want = lit
			ct.ConstStrs = append(ct.ConstStrs, cs)
			cur = nil
		case "nostore":
			// nostore[Cxx] fn:field: function fn of this package contains no store into an element of a slice loaded from a
			// struct field of this name (decided on the SSA): what fn accepts in that field is what its callees put there
			cs := &ConstStr{PkgPath: pkgPath, File: file, Line: it.line, Src: c, NoStore: true}
			r := rest
			if m := tagRe.FindStringSubmatch(r); m != nil {
				for _, t := range strings.Split(m[1], ",") {
					if t = strings.TrimSpace(t); t != "" {
						cs.Tags = append(cs.Tags, t)
					}
				}
				r = strings.TrimSpace(r[len(m[0]):])
			}
			k1 := strings.Index(r, ":")
			if k1 < 0 {
				return errf("nostore fn:field")
			}
			cs.Func = strings.TrimSpace(r[:k1])
			cs.Callee = strings.TrimSpace(r[k1+1:])
			ct.ConstStrs = append(ct.ConstStrs, cs)
			cur = nil
		case "constmap":
			// constmap[Cxx] name = "k1", "k2", ...: the package-level map `name` is filled by the package
			// initialiser with exactly these string keys and is not updated anywhere else in the package
			cm := &ConstMap{PkgPath: pkgPath, File: file, Line: it.line, Src: c}
			r := rest
			if m := tagRe.FindStringSubmatch(r); m != nil {
				for _, t := range strings.Split(m[1], ",") {
					if t = strings.TrimSpace(t); t != "" {
						cm.Tags = append(cm.Tags, t)
					}
				}
				r = strings.TrimSpace(r[len(m[0]):])
			}
			k := strings.Index(r, "=")
			if k < 0 {
				return errf("constmap name = keys")
			}
			cm.Name = strings.TrimSpace(r[:k])
			for _, part := range splitTopLevel(r[k+1:], ',') {
				part = strings.TrimSpace(part)
				if len(part) < 2 || part[0] != '"' || part[len(part)-1] != '"' {
					return errf("constmap keys must be string literals")
				}
				cm.Keys = append(cm.Keys, part[1:len(part)-1])
			}
			ct.ConstMaps = append(ct.ConstMaps, cm)
			cur = nil
		case "encapsulated":
			// encapsulated T: the fields of struct type T may only be accessed by methods of T
			if ct.Encapsulated == nil {
				ct.Encapsulated = map[string]bool{}
			}
			for _, n := range strings.Fields(rest) {
				ct.Encapsulated[pkgPath+"."+n] = true
			}
			cur = nil
		case "end":
			cur = nil
		default:
			if cur == nil {
				return errf("clause %q outside a contract block", w)
			}
			switch w {
			case "serves":
				for _, s := range strings.FieldsFunc(rest, func(r rune) bool { return r == ' ' || r == ',' }) {
					cur.Serves = append(cur.Serves, s)
				}
			case "trusted":
				cur.Trusted = true
			case "inline":
				cur.Inline = true
			case "pure":
				cur.Pure = true
			case "nobody":
				cur.NoBody = true
			case "allowpanic":
				cur.AllowPanic = true
			case "noframe":
				cur.NoFrame = true
			case "nosafety":
				cur.NoSafety = true
			case "gmodifies":
				for _, part := range splitTopLevel(rest, ',') {
					part = strings.TrimSpace(part)
					if part == "" {
						continue
					}
					e, err := ParseSpec(part)
					if err != nil {
						return errf("%v", err)
					}
					cur.GMod = append(cur.GMod, e)
				}
			case "gensures":
				tags, label, e, src, err := parseTagged(rest)
				if err != nil {
					return errf("%v", err)
				}
				cur.GEns = append(cur.GEns, Clause{Kind: w, Tags: tags, Label: label, Expr: e, Src: src, File: file, Line: it.line})
			case "selfensures":
				tags, label, e, src, err := parseTagged(rest)
				if err != nil {
					return errf("%v", err)
				}
				cur.SelfEns = append(cur.SelfEns, Clause{Kind: w, Tags: tags, Label: label, Expr: e, Src: src, File: file, Line: it.line})
			case "requires", "ensures", "assume", "lensures":
				tags, label, e, src, err := parseTagged(rest)
				if err != nil {
					return errf("%v", err)
				}
				cl := Clause{Kind: w, Tags: tags, Label: label, Expr: e, Src: src, File: file, Line: it.line}
				switch w {
				case "requires":
					cur.Requires = append(cur.Requires, cl)
				case "ensures":
					cur.Ensures = append(cur.Ensures, cl)
				case "lensures":
					// local postcondition: proved at every return, may mention local variables, not exported to callers
					cl.Local = true
					cl.Kind = "ensures"
					cur.Ensures = append(cur.Ensures, cl)
				case "assume":
					cur.Assumes = append(cur.Assumes, cl)
				}
			case "modifies":
				for _, part := range splitTopLevel(rest, ',') {
					part = strings.TrimSpace(part)
					if part == "" {
						continue
					}
					e, err := ParseSpec(part)
					if err != nil {
						return errf("%v", err)
					}
					cur.Modifies = append(cur.Modifies, e)
					cur.ModifiesSrc = append(cur.ModifiesSrc, part)
				}
			case "loop":
				fs := strings.SplitN(rest, " ", 3)
				if len(fs) < 3 {
					return errf("loop clause: loop <n> invariant|decreases <expr>")
				}
				n, err := strconv.Atoi(fs[0])
				if err != nil {
					return errf("loop ordinal: %v", err)
				}
				kind := fs[1]
				r := fs[2]
				if kind == "modifies" {
					if cur.LoopMod == nil {
						cur.LoopMod = map[int][]SExpr{}
					}
					if cur.LoopMod[n] == nil {
						cur.LoopMod[n] = []SExpr{}
					}
					if strings.TrimSpace(r) == "nothing" {
						continue
					}
					for _, part := range splitTopLevel(r, ',') {
						part = strings.TrimSpace(part)
						if part == "" {
							continue
						}
						e, err := ParseSpec(part)
						if err != nil {
							return errf("%v", err)
						}
						if cur.LoopMod == nil {
							cur.LoopMod = map[int][]SExpr{}
						}
						cur.LoopMod[n] = append(cur.LoopMod[n], e)
					}
					continue
				}
				if strings.HasPrefix(kind, "invariant") {
					r = strings.TrimPrefix(kind, "invariant") + " " + r
					kind = "invariant"
				}
				if strings.HasPrefix(kind, "step") {
					r = strings.TrimPrefix(kind, "step") + " " + r
					kind = "step"
				}
				tags, label, e, src, err := parseTagged(strings.TrimSpace(r))
				if err != nil {
					return errf("%v", err)
				}
				cl := Clause{Kind: kind, Tags: tags, Label: label, Expr: e, Src: src, Loop: n, File: file, Line: it.line}
				if kind == "assume" {
					// assumed at the loop head in every iteration, never proved (trusted, listed in the evidence)
					cl.Kind = "invariant"
					cl.AssumeOnly = true
					cur.LoopInv[n] = append(cur.LoopInv[n], cl)
				} else if kind == "invariant" {
					cur.LoopInv[n] = append(cur.LoopInv[n], cl)
				} else if kind == "step" {
					// proved at the end of every iteration (each back edge), never assumed: may relate the state at the end of
					// an iteration to the state at its beginning (x$N, ghost$N)
					if cur.LoopStep == nil {
						cur.LoopStep = map[int][]Clause{}
					}
					cur.LoopStep[n] = append(cur.LoopStep[n], cl)
				} else if kind == "decreases" {
					cur.LoopDec[n] = cl
				} else {
					return errf("unknown loop clause kind %q", kind)
				}
			case "call":
				// call <callee>#<k|*> asserts|assumes <expr>
				fs := strings.SplitN(rest, " ", 3)
				if len(fs) < 3 {
					return errf("call clause: call <callee>#k asserts <expr>")
				}
				k := strings.LastIndex(fs[0], "#")
				if k < 0 {
					return errf("call clause needs #ordinal or #*")
				}
				ord := -1
				if fs[0][k+1:] != "*" {
					o, err := strconv.Atoi(fs[0][k+1:])
					if err != nil {
						return errf("%v", err)
					}
					ord = o
				}
				kind := fs[1]
				r := fs[2]
				for _, kw := range []string{"asserts", "assumes"} {
					if strings.HasPrefix(kind, kw) {
						r = strings.TrimPrefix(kind, kw) + " " + r
						kind = kw
					}
				}
				if kind != "asserts" && kind != "assumes" {
					return errf("call clause kind must be asserts or assumes")
				}
				tags, label, e, src, err := parseTagged(strings.TrimSpace(r))
				if err != nil {
					return errf("%v", err)
				}
				cur.CallCl = append(cur.CallCl, Clause{Kind: kind, Tags: tags, Label: label, Expr: e, Src: src, Callee: fs[0][:k], CallOrd: ord, File: file, Line: it.line})
			default:
				return errf("unknown clause %q", w)
			}
		}
	}
	return nil
}

func splitTopLevel(s string, sep byte) []string {
	var out []string
	depth := 0
	last := 0
	for i := 0; i < len(s); i++ {
		switch s[i] {
		case '(', '[':
			depth++
		case ')', ']':
			depth--
		default:
			if s[i] == sep && depth == 0 {
				out = append(out, s[last:i])
				last = i + 1
			}
		}
	}
	out = append(out, s[last:])
	return out
}

// ConstMap: a package-level map whose key set is fixed by the package initialiser.
type ConstMap struct {
	PkgPath, Name string
	Keys          []string
	Tags          []string
	File, Src     string
	Line          int
}

// ConstStr: a constant string argument pinned at a call site (regular expressions, format strings).
type ConstStr struct {
	PkgPath, Func, Callee string
	Ord                   int
	Want                  string
	NoStore               bool
	Tags                  []string
	File, Src             string
	Line                  int
}
