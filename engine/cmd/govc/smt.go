package main

// SMT term construction. Terms are plain s-expression strings tagged with a
// sort; the engine keeps a per-function declaration table.

import (
	"fmt"
	"sort"
	"strings"
)

type Sort string

const (
	SInt  Sort = "Int"
	SBool Sort = "Bool"
	SStr  Sort = "GStr"
)

func ArrSort(idx, elem Sort) Sort { return Sort("(Array " + string(idx) + " " + string(elem) + ")") }

type Term struct {
	S    string
	Sort Sort
}

func (t Term) String() string { return t.S }
func (t Term) IsZero() bool   { return t.S == "" }

var (
	True  = Term{"true", SBool}
	False = Term{"false", SBool}
)

func IntLit(n int64) Term {
	if n < 0 {
		if n == -9223372036854775808 {
			return Term{"(- 9223372036854775808)", SInt}
		}
		return Term{fmt.Sprintf("(- %d)", -n), SInt}
	}
	return Term{fmt.Sprintf("%d", n), SInt}
}

func BigLit(s string) Term {
	if strings.HasPrefix(s, "-") {
		return Term{"(- " + s[1:] + ")", SInt}
	}
	return Term{s, SInt}
}

func App(sort Sort, op string, args ...Term) Term {
	if len(args) == 0 {
		return Term{op, sort}
	}
	var b strings.Builder
	b.WriteByte('(')
	b.WriteString(op)
	for _, a := range args {
		b.WriteByte(' ')
		b.WriteString(a.S)
	}
	b.WriteByte(')')
	return Term{b.String(), sort}
}

func And(ts ...Term) Term {
	var xs []Term
	for _, t := range ts {
		if t.S == "true" {
			continue
		}
		if t.S == "false" {
			return False
		}
		xs = append(xs, t)
	}
	if len(xs) == 0 {
		return True
	}
	if len(xs) == 1 {
		return xs[0]
	}
	return App(SBool, "and", xs...)
}

func Or(ts ...Term) Term {
	var xs []Term
	for _, t := range ts {
		if t.S == "false" {
			continue
		}
		if t.S == "true" {
			return True
		}
		xs = append(xs, t)
	}
	if len(xs) == 0 {
		return False
	}
	if len(xs) == 1 {
		return xs[0]
	}
	return App(SBool, "or", xs...)
}

func Not(t Term) Term {
	if t.S == "true" {
		return False
	}
	if t.S == "false" {
		return True
	}
	return App(SBool, "not", t)
}

func Implies(a, b Term) Term {
	if a.S == "true" {
		return b
	}
	if a.S == "false" || b.S == "true" {
		return True
	}
	return App(SBool, "=>", a, b)
}

func Eq(a, b Term) Term {
	if a.S == b.S {
		return True
	}
	return App(SBool, "=", a, b)
}
func Ne(a, b Term) Term { return Not(Eq(a, b)) }

func Ite(c, a, b Term) Term {
	if c.S == "true" {
		return a
	}
	if c.S == "false" {
		return b
	}
	if a.S == b.S {
		return a
	}
	return App(a.Sort, "ite", c, a, b)
}

func Add(a, b Term) Term { return App(SInt, "+", a, b) }
func Sub(a, b Term) Term { return App(SInt, "-", a, b) }
func Mul(a, b Term) Term { return App(SInt, "*", a, b) }
func Lt(a, b Term) Term  { return App(SBool, "<", a, b) }
func Le(a, b Term) Term  { return App(SBool, "<=", a, b) }
func Gt(a, b Term) Term  { return App(SBool, ">", a, b) }
func Ge(a, b Term) Term  { return App(SBool, ">=", a, b) }

func Select(arr, idx Term) Term {
	// result sort: strip "(Array I E)"
	return App(elemSort(arr.Sort), "select", arr, idx)
}
func Store(arr, idx, v Term) Term { return App(arr.Sort, "store", arr, idx, v) }

func elemSort(s Sort) Sort {
	str := string(s)
	if !strings.HasPrefix(str, "(Array ") {
		panic("elemSort of non-array " + str)
	}
	inner := str[len("(Array ") : len(str)-1]
	// split first sort token
	depth := 0
	for i := 0; i < len(inner); i++ {
		switch inner[i] {
		case '(':
			depth++
		case ')':
			depth--
		case ' ':
			if depth == 0 {
				return Sort(strings.TrimSpace(inner[i+1:]))
			}
		}
	}
	panic("bad array sort " + str)
}

func idxSort(s Sort) Sort {
	str := string(s)
	inner := str[len("(Array ") : len(str)-1]
	depth := 0
	for i := 0; i < len(inner); i++ {
		switch inner[i] {
		case '(':
			depth++
		case ')':
			depth--
		case ' ':
			if depth == 0 {
				return Sort(strings.TrimSpace(inner[:i]))
			}
		}
	}
	panic("bad array sort " + str)
}

// Decls is an ordered declaration table.
type Decls struct {
	order []string
	m     map[string]string // name -> full declaration line
}

func NewDecls() *Decls { return &Decls{m: map[string]string{}} }

func (d *Decls) Const(name string, s Sort) Term {
	if _, ok := d.m[name]; !ok {
		d.m[name] = fmt.Sprintf("(declare-fun %s () %s)", name, s)
		d.order = append(d.order, name)
	}
	return Term{name, s}
}

func (d *Decls) Fun(name string, args []Sort, res Sort) {
	if _, ok := d.m[name]; !ok {
		as := make([]string, len(args))
		for i, a := range args {
			as[i] = string(a)
		}
		d.m[name] = fmt.Sprintf("(declare-fun %s (%s) %s)", name, strings.Join(as, " "), res)
		d.order = append(d.order, name)
	}
}

func (d *Decls) Has(name string) bool { _, ok := d.m[name]; return ok }

// symbols returns the set of identifier-like tokens in s.
func symbolsOf(s string, into map[string]bool) {
	i := 0
	n := len(s)
	for i < n {
		c := s[i]
		if c == '|' {
			j := i + 1
			for j < n && s[j] != '|' {
				j++
			}
			into[s[i:min(j+1, n)]] = true
			i = j + 1
			continue
		}
		if c == '(' || c == ')' || c == ' ' || c == '\n' || c == '\t' {
			i++
			continue
		}
		j := i
		for j < n && s[j] != '(' && s[j] != ')' && s[j] != ' ' && s[j] != '\n' && s[j] != '\t' {
			j++
		}
		into[s[i:j]] = true
		i = j
	}
}

func sortedKeys(m map[string]bool) []string {
	ks := make([]string, 0, len(m))
	for k := range m {
		ks = append(ks, k)
	}
	sort.Strings(ks)
	return ks
}

// smtName makes an SMT-safe symbol out of an arbitrary Go identifier path.
func smtName(s string) string {
	s = strings.ReplaceAll(s, "github.com/buchgr/bazel-remote/v2/", "")
	s = strings.ReplaceAll(s, "github.com.buchgr.bazel_remote.v2.", "")
	var b strings.Builder
	for _, r := range s {
		switch {
		case r >= 'a' && r <= 'z', r >= 'A' && r <= 'Z', r >= '0' && r <= '9', r == '_', r == '.', r == '!', r == '$', r == '@', r == '#':
			b.WriteRune(r)
		case r == '/':
			b.WriteByte('.')
		case r == '*':
			b.WriteString("ptr.")
		default:
			b.WriteByte('_')
		}
	}
	return b.String()
}
