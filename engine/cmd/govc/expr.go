package main

// Parser for contract expressions: Go expression syntax plus ==>, <==>,
// old(e), forall x Sort :: e, c ? a : b, and #Type.field (the heap array of a
// field as a first-class value).

import (
	"fmt"
	"strings"
	"unicode"
)

type SExpr interface{}

type (
	SIdent  struct{ Name string }
	SIntLit struct{ V string }
	SStrLit struct{ V string }
	SBoolLit struct{ V bool }
	SNil    struct{}
	SSel    struct {
		X SExpr
		F string
	}
	SIndex struct{ X, I SExpr }
	SSlice struct{ X, Lo, Hi SExpr }
	SCall  struct {
		Fn   string
		Args []SExpr
	}
	SUn struct {
		Op string
		X  SExpr
	}
	SBin struct {
		Op   string
		X, Y SExpr
	}
	SQuant struct {
		Forall bool
		Vars   []SVar
		Body   SExpr
	}
	SVar     struct{ Name, Sort string }
	SHeapArr struct{ Path string }
	SCond    struct{ C, A, B SExpr }
)

type tok struct {
	k string // id, int, str, op, eof
	s string
}

func lexSpec(src string) ([]tok, error) {
	var ts []tok
	i := 0
	n := len(src)
	ops := []string{"<==>", "==>", "::", "==", "!=", "<=", ">=", "&&", "||", "<<", ">>", "<", ">", "!", "+", "-", "*", "/", "%", "(", ")", "[", "]", ".", ",", "?", ":", "#", "&"}
	for i < n {
		c := rune(src[i])
		if unicode.IsSpace(c) {
			i++
			continue
		}
		if unicode.IsLetter(c) || c == '_' {
			j := i
			for j < n && (unicode.IsLetter(rune(src[j])) || unicode.IsDigit(rune(src[j])) || src[j] == '_' || src[j] == '$') {
				j++
			}
			ts = append(ts, tok{"id", src[i:j]})
			i = j
			continue
		}
		if unicode.IsDigit(c) {
			j := i
			for j < n && (unicode.IsDigit(rune(src[j])) || src[j] == 'x' || (src[j] >= 'a' && src[j] <= 'f') || (src[j] >= 'A' && src[j] <= 'F') || src[j] == '_') {
				j++
			}
			ts = append(ts, tok{"int", strings.ReplaceAll(src[i:j], "_", "")})
			i = j
			continue
		}
		if c == '"' {
			j := i + 1
			for j < n && src[j] != '"' {
				if src[j] == '\\' {
					j++
				}
				j++
			}
			if j >= n {
				return nil, fmt.Errorf("unterminated string")
			}
			ts = append(ts, tok{"str", src[i+1 : j]})
			i = j + 1
			continue
		}
		matched := false
		for _, op := range ops {
			if strings.HasPrefix(src[i:], op) {
				ts = append(ts, tok{"op", op})
				i += len(op)
				matched = true
				break
			}
		}
		if !matched {
			return nil, fmt.Errorf("unexpected character %q in %q", c, src)
		}
	}
	ts = append(ts, tok{"eof", ""})
	return ts, nil
}

type specParser struct {
	ts  []tok
	pos int
	src string
}

func ParseSpec(src string) (e SExpr, err error) {
	ts, err := lexSpec(src)
	if err != nil {
		return nil, err
	}
	p := &specParser{ts: ts, src: src}
	defer func() {
		if r := recover(); r != nil {
			err = fmt.Errorf("spec parse error: %v in %q", r, src)
		}
	}()
	e = p.parseIff()
	if p.peek().k != "eof" {
		panic(fmt.Sprintf("trailing token %q", p.peek().s))
	}
	return e, nil
}

func (p *specParser) peek() tok { return p.ts[p.pos] }
func (p *specParser) next() tok { t := p.ts[p.pos]; p.pos++; return t }
func (p *specParser) isOp(s string) bool {
	t := p.peek()
	return t.k == "op" && t.s == s
}
func (p *specParser) expectOp(s string) {
	if !p.isOp(s) {
		panic(fmt.Sprintf("expected %q, got %q", s, p.peek().s))
	}
	p.pos++
}

func (p *specParser) parseIff() SExpr {
	x := p.parseImp()
	for p.isOp("<==>") {
		p.next()
		y := p.parseImp()
		x = SBin{"<==>", x, y}
	}
	return x
}

func (p *specParser) parseImp() SExpr {
	x := p.parseCond()
	if p.isOp("==>") {
		p.next()
		y := p.parseImp()
		return SBin{"==>", x, y}
	}
	return x
}

func (p *specParser) parseCond() SExpr {
	c := p.parseOr()
	if p.isOp("?") {
		p.next()
		a := p.parseCond()
		p.expectOp(":")
		b := p.parseCond()
		return SCond{c, a, b}
	}
	return c
}

func (p *specParser) parseOr() SExpr {
	x := p.parseAnd()
	for p.isOp("||") {
		p.next()
		x = SBin{"||", x, p.parseAnd()}
	}
	return x
}

func (p *specParser) parseAnd() SExpr {
	x := p.parseCmp()
	for p.isOp("&&") {
		p.next()
		x = SBin{"&&", x, p.parseCmp()}
	}
	return x
}

func (p *specParser) parseCmp() SExpr {
	x := p.parseAdd()
	for {
		t := p.peek()
		if t.k == "op" && (t.s == "==" || t.s == "!=" || t.s == "<" || t.s == "<=" || t.s == ">" || t.s == ">=") {
			p.next()
			y := p.parseAdd()
			x = SBin{t.s, x, y}
			continue
		}
		return x
	}
}

func (p *specParser) parseAdd() SExpr {
	x := p.parseMul()
	for p.isOp("+") || p.isOp("-") {
		op := p.next().s
		x = SBin{op, x, p.parseMul()}
	}
	return x
}

func (p *specParser) parseMul() SExpr {
	x := p.parseUnary()
	for p.isOp("*") || p.isOp("/") || p.isOp("%") || p.isOp("<<") {
		op := p.next().s
		x = SBin{op, x, p.parseUnary()}
	}
	return x
}

func (p *specParser) parseUnary() SExpr {
	if p.isOp("!") {
		p.next()
		return SUn{"!", p.parseUnary()}
	}
	if p.isOp("-") {
		p.next()
		return SUn{"-", p.parseUnary()}
	}
	if p.isOp("&") {
		p.next()
		return SUn{"&", p.parseUnary()}
	}
	return p.parsePostfix()
}

func (p *specParser) parsePostfix() SExpr {
	x := p.parsePrimary()
	for {
		if p.isOp(".") {
			p.next()
			t := p.next()
			if t.k != "id" {
				panic("expected field name after '.'")
			}
			x = SSel{x, t.s}
			continue
		}
		if p.isOp("[") {
			p.next()
			var lo SExpr
			if !p.isOp(":") {
				lo = p.parseIff()
			}
			if p.isOp(":") {
				p.next()
				var hi SExpr
				if !p.isOp("]") {
					hi = p.parseIff()
				}
				p.expectOp("]")
				x = SSlice{x, lo, hi}
				continue
			}
			p.expectOp("]")
			x = SIndex{x, lo}
			continue
		}
		return x
	}
}

func (p *specParser) parsePrimary() SExpr {
	t := p.next()
	switch t.k {
	case "int":
		return SIntLit{t.s}
	case "str":
		return SStrLit{t.s}
	case "id":
		switch t.s {
		case "true":
			return SBoolLit{true}
		case "false":
			return SBoolLit{false}
		case "nil":
			return SNil{}
		case "forall", "exists":
			var vars []SVar
			for {
				n := p.next()
				if n.k != "id" {
					panic("expected bound variable")
				}
				s := p.next()
				if s.k != "id" {
					panic("expected sort of bound variable")
				}
				vars = append(vars, SVar{n.s, s.s})
				if p.isOp(",") {
					p.next()
					continue
				}
				break
			}
			p.expectOp("::")
			body := p.parseIff()
			return SQuant{t.s == "forall", vars, body}
		}
		if p.isOp("(") {
			p.next()
			var args []SExpr
			for !p.isOp(")") {
				args = append(args, p.parseIff())
				if p.isOp(",") {
					p.next()
				}
			}
			p.expectOp(")")
			return SCall{t.s, args}
		}
		return SIdent{t.s}
	case "op":
		if t.s == "(" {
			e := p.parseIff()
			p.expectOp(")")
			return e
		}
		if t.s == "#" {
			// #Type.field or #pkg.Type.field.sub
			var parts []string
			for {
				n := p.next()
				if n.k != "id" {
					panic("expected identifier after '#'")
				}
				parts = append(parts, n.s)
				if p.isOp(".") {
					p.next()
					continue
				}
				break
			}
			return SHeapArr{strings.Join(parts, ".")}
		}
	}
	panic(fmt.Sprintf("unexpected token %q", t.s))
}

func specString(e SExpr) string {
	switch x := e.(type) {
	case SIdent:
		return x.Name
	case SIntLit:
		return x.V
	case SStrLit:
		return "\"" + x.V + "\""
	case SBoolLit:
		return fmt.Sprint(x.V)
	case SNil:
		return "nil"
	case SSel:
		return specString(x.X) + "." + x.F
	case SIndex:
		return specString(x.X) + "[" + specString(x.I) + "]"
	case SSlice:
		lo, hi := "", ""
		if x.Lo != nil {
			lo = specString(x.Lo)
		}
		if x.Hi != nil {
			hi = specString(x.Hi)
		}
		return specString(x.X) + "[" + lo + ":" + hi + "]"
	case SCall:
		as := make([]string, len(x.Args))
		for i, a := range x.Args {
			as[i] = specString(a)
		}
		return x.Fn + "(" + strings.Join(as, ", ") + ")"
	case SUn:
		return x.Op + specString(x.X)
	case SBin:
		return "(" + specString(x.X) + " " + x.Op + " " + specString(x.Y) + ")"
	case SQuant:
		q := "exists"
		if x.Forall {
			q = "forall"
		}
		vs := make([]string, len(x.Vars))
		for i, v := range x.Vars {
			vs[i] = v.Name + " " + v.Sort
		}
		return q + " " + strings.Join(vs, ", ") + " :: " + specString(x.Body)
	case SHeapArr:
		return "#" + x.Path
	case SCond:
		return "(" + specString(x.C) + " ? " + specString(x.A) + " : " + specString(x.B) + ")"
	}
	return fmt.Sprintf("%#v", e)
}
