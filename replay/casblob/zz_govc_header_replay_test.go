package casblob

// Replay adapter "casblob-header": builds a blob file whose header fields come
// from the solver's counter-model (environment variables GOVC_*) and runs the
// real readers on it. Prints REPLAY-CONFIRMED when the real code panics or
// accepts a header that violates the well-formedness the readers rely on.

import (
	"bytes"
	"encoding/binary"
	"fmt"
	"os"
	"strconv"
	"testing"

	"github.com/buchgr/bazel-remote/v2/cache/disk/zstdimpl"
)

func govcEnvInt(name string, def int64) int64 {
	s := os.Getenv(name)
	if s == "" {
		return def
	}
	v, err := strconv.ParseInt(s, 10, 64)
	if err != nil {
		return def
	}
	return v
}

func TestGovcReplayHeader(t *testing.T) {
	numOffsets := govcEnvInt("GOVC_NUMOFFSETS", 2)
	usize := govcEnvInt("GOVC_USIZE", 1)
	compression := govcEnvInt("GOVC_COMPRESSION", 1)
	chunkSize := govcEnvInt("GOVC_CHUNKSIZE", 1<<20)
	magic := govcEnvInt("GOVC_MAGIC", skippableFrameMagicNumber)
	frameSize := govcEnvInt("GOVC_FRAMESIZE", int64(uint32(uint64(numOffsets)*8+21)))
	expected := govcEnvInt("GOVC_EXPECTED", -1)
	offset := govcEnvInt("GOVC_OFFSET", 0)

	var buf bytes.Buffer
	binary.Write(&buf, binary.LittleEndian, uint32(magic))
	binary.Write(&buf, binary.LittleEndian, uint32(frameSize))
	binary.Write(&buf, binary.LittleEndian, usize)
	binary.Write(&buf, binary.LittleEndian, uint8(compression))
	binary.Write(&buf, binary.LittleEndian, uint32(chunkSize))
	binary.Write(&buf, binary.LittleEndian, numOffsets)
	fileSize := int64(-1)
	if numOffsets >= 2 && numOffsets <= 1<<16 {
		prev := int64(-1)
		for i := int64(0); i < numOffsets; i++ {
			v := govcEnvInt(fmt.Sprintf("GOVC_OFF%d", i), prev+1)
			if i == 0 && os.Getenv("GOVC_OFF0") == "" {
				v = chunkTableOffset + numOffsets*8
			}
			if v <= prev {
				v = prev + 1
			}
			binary.Write(&buf, binary.LittleEndian, v)
			prev = v
		}
		fileSize = prev
	}
	if fileSize > 1<<40 {
		t.Skipf("model needs a file of %d bytes: not realisable here", fileSize)
	}
	f, err := os.CreateTemp(t.TempDir(), "blob")
	if err != nil {
		t.Fatal(err)
	}
	f.Write(buf.Bytes())
	if fileSize > int64(buf.Len()) {
		f.Truncate(fileSize) // sparse
	} else if fileSize < 0 {
		f.Write(make([]byte, 64))
	}
	name := f.Name()
	f.Close()
	t.Logf("header: magic=%#x frameSize=%d usize=%d compression=%d chunkSize=%d numOffsets=%d fileSize=%d expected=%d offset=%d",
		magic, frameSize, usize, compression, chunkSize, numOffsets, fileSize, expected, offset)
	z, err := zstdimpl.Get("go")
	if err != nil {
		t.Fatal(err)
	}
	try := func(what string, fn func() error) {
		defer func() {
			if r := recover(); r != nil {
				fmt.Printf("REPLAY-CONFIRMED: %s panicked: %v\n", what, r)
			}
		}()
		err := fn()
		t.Logf("%s: err=%v", what, err)
	}
	try("readHeader", func() error {
		g, _ := os.Open(name)
		defer g.Close()
		h, err := readHeader(g)
		if err == nil {
			n := int64(len(h.chunkOffsets))
			bad := h.uncompressedSize <= 0 ||
				(h.compression == Zstandard && (h.chunkSize == 0 || (n-1)*int64(h.chunkSize) < h.uncompressedSize || (n-2)*int64(h.chunkSize) >= h.uncompressedSize))
			if bad {
				fmt.Printf("REPLAY-CONFIRMED: readHeader accepted a header the readers cannot use (usize=%d chunkSize=%d offsets=%d)\n", h.uncompressedSize, h.chunkSize, n)
			}
		}
		return err
	})
	try("GetUncompressedReadCloser", func() error {
		g, _ := os.Open(name)
		rc, err := GetUncompressedReadCloser(z, g, expected, offset)
		if rc != nil {
			rc.Close()
		}
		return err
	})
	try("GetZstdReadCloser", func() error {
		g, _ := os.Open(name)
		rc, err := GetZstdReadCloser(z, g, expected, offset)
		if rc != nil {
			rc.Close()
		}
		return err
	})
}
