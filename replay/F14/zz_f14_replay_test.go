package disk

// Replay for finding F14 (properties C06 / C10): obligation
//   disk.diskCache.findMissingCasBlobsInternal/ensures[failfastproxy]@ret9
// In fail-fast mode (ActionResult dependency check) a backend miss cancels the
// context and the worker then signals the wait group. The final select has both
// `ctx.Done()` and `waitCh` ready and may take the waitCh branch, returning nil
// ("all blobs present") although a blob is missing.

import (
	"context"
	"io"
	"sync"
	"sync/atomic"
	"testing"

	"github.com/buchgr/bazel-remote/v2/cache"
	pb "github.com/buchgr/bazel-remote/v2/genproto/build/bazel/remote/execution/v2"
	testutils "github.com/buchgr/bazel-remote/v2/utils"
)

type missProxy struct{}

func (missProxy) Put(ctx context.Context, kind cache.EntryKind, hash string, logicalSize int64, sizeOnDisk int64, rc io.ReadCloser) {
	rc.Close()
}
func (missProxy) Get(ctx context.Context, kind cache.EntryKind, hash string, size int64) (io.ReadCloser, int64, error) {
	return nil, -1, nil
}
func (missProxy) Contains(ctx context.Context, kind cache.EntryKind, hash string, size int64) (bool, int64) {
	return false, -1
}

func TestReplayF14FailFastRace(t *testing.T) {
	ci, err := New(t.TempDir(), 100*BlockSize, WithAccessLogger(testutils.NewSilentLogger()), WithProxyBackend(missProxy{}), WithProxyMaxBlobSize(1<<20))
	if err != nil {
		t.Fatal(err)
	}
	c := ci.(*diskCache)
	hash := "aaaaaaaaaaaaaaaaaaaaaaaaaaaaaaaaaaaaaaaaaaaaaaaaaaaaaaaaaaaaaaaa"
	var wrong int64
	const rounds = 300000
	const par = 64
	var wg sync.WaitGroup
	for g := 0; g < par; g++ {
		wg.Add(1)
		go func() {
			defer wg.Done()
			for i := 0; i < rounds/par && atomic.LoadInt64(&wrong) == 0; i++ {
				blobs := []*pb.Digest{{Hash: hash, SizeBytes: 10}}
				if err := c.findMissingCasBlobsInternal(context.Background(), blobs, true); err == nil {
					atomic.AddInt64(&wrong, 1)
					t.Logf("fail-fast check returned nil although the only blob is absent locally and in the backend (slot now %v)", blobs[0])
				}
			}
		}()
	}
	wg.Wait()
	if wrong > 0 {
		t.Fatalf("C06 violated: the dependency check passed with a missing blob")
	}
	t.Logf("no wrong answer in %d rounds", rounds)
}
