package server

// Replay for finding F8 (property C14), obligation
//   server.grpcServer.fillDirectories/safety:nil#35
// A stored Directory blob whose DirectoryNode carries no digest makes GetTree dereference a
// nil *Digest: the handler panics (grpc-go does not recover handler panics: the process dies).

import (
	"bytes"
	"context"
	"crypto/sha256"
	"encoding/hex"
	"testing"

	"github.com/buchgr/bazel-remote/v2/cache"
	"github.com/buchgr/bazel-remote/v2/cache/disk"
	pb "github.com/buchgr/bazel-remote/v2/genproto/build/bazel/remote/execution/v2"
	testutils "github.com/buchgr/bazel-remote/v2/utils"
	"google.golang.org/protobuf/proto"
)

type f8Stream struct {
	pb.ContentAddressableStorage_GetTreeServer
	ctx context.Context
}

func (s f8Stream) Context() context.Context         { return s.ctx }
func (s f8Stream) Send(*pb.GetTreeResponse) error { return nil }

func TestReplayF8GetTreeNilDigestPanics(t *testing.T) {
	c, err := disk.New(t.TempDir(), 1<<20, disk.WithAccessLogger(testutils.NewSilentLogger()))
	if err != nil {
		t.Fatal(err)
	}
	s := &grpcServer{cache: c, accessLogger: testutils.NewSilentLogger(), errorLogger: testutils.NewSilentLogger(), maxCasBlobSizeBytes: 1 << 20}
	// a root directory with one child node that has a name but no digest
	root := &pb.Directory{Directories: []*pb.DirectoryNode{{Name: "child"}}}
	data, err := proto.Marshal(root)
	if err != nil {
		t.Fatal(err)
	}
	sum := sha256.Sum256(data)
	hash := hex.EncodeToString(sum[:])
	if err := c.Put(context.Background(), cache.CAS, hash, int64(len(data)), bytes.NewReader(data)); err != nil {
		t.Fatal(err)
	}
	defer func() {
		if r := recover(); r != nil {
			t.Fatalf("REPLAY-CONFIRMED C14 violated: GetTree panicked on a stored Directory blob: %v", r)
		}
	}()
	err = s.GetTree(&pb.GetTreeRequest{RootDigest: &pb.Digest{Hash: hash, SizeBytes: int64(len(data))}}, f8Stream{ctx: context.Background()})
	t.Logf("GetTree returned %v", err)
}
