package disk

// Replay for finding F5 (properties C01 / C05): obligation
//   disk.SizedLRU.Add/loop0:invariant[fits]:entry
// With space reserved by uploads in flight, overwriting a key with a larger
// value passes the test `reservedSize + sizeDelta <= maxSize` although
// reservedSize + the new size does not fit: the eviction loop then evicts the
// entry that was just written and Add still returns true.

import "testing"

func TestReplayF5OverwriteEvictsItself(t *testing.T) {
	evicted := 0
	lru := NewSizedLRU(10*BlockSize, func(key string, value lruItem) { evicted++ }, 8)
	if err := lru.Reserve(6 * BlockSize); err != nil {
		t.Fatal(err)
	}
	if !lru.Add("cas/k", lruItem{size: 2 * BlockSize, sizeOnDisk: 2 * BlockSize, random: "1"}) {
		t.Fatal("first Add refused")
	}
	ok := lru.Add("cas/k", lruItem{size: 5 * BlockSize, sizeOnDisk: 5 * BlockSize, random: "2"})
	_, elem := lru.Get("cas/k")
	t.Logf("overwrite returned %v; key present afterwards: %v; total=%d reserved=%d", ok, elem != nil, lru.TotalSize(), lru.ReservedSize())
	if ok && elem == nil {
		t.Fatalf("C05/C01 violated: Add reported success but the entry (and its new file) was evicted immediately")
	}
}
