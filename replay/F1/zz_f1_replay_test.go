package server

// Replay for findings F1 and F15 (property C01), obligations
//   server.grpcServer.BatchUpdateBlobs/call:Put#0:asserts[declared].2
//   server.grpcServer.BatchUpdateBlobs/loop0:invariant[acked]:preserved.6 (two back edges)
// F1:  the handler stores the blob under (hash, len(data)) and never compares len(data)
//      with the declared Digest.SizeBytes, so an upload with a wrong declared size is
//      acknowledged with status OK for a digest that is not present afterwards.
// F15: an unsupported compressor is answered with gRPCErrCode(nil, InvalidArgument) == OK
//      although nothing was stored.

import (
	"context"
	"crypto/sha256"
	"encoding/hex"
	"testing"

	"github.com/buchgr/bazel-remote/v2/cache"
	"github.com/buchgr/bazel-remote/v2/cache/disk"
	pb "github.com/buchgr/bazel-remote/v2/genproto/build/bazel/remote/execution/v2"
	testutils "github.com/buchgr/bazel-remote/v2/utils"
)

func replayServer(t *testing.T) *grpcServer {
	c, err := disk.New(t.TempDir(), 1<<20, disk.WithAccessLogger(testutils.NewSilentLogger()))
	if err != nil {
		t.Fatal(err)
	}
	return &grpcServer{cache: c, accessLogger: testutils.NewSilentLogger(), errorLogger: testutils.NewSilentLogger(), maxCasBlobSizeBytes: 1 << 20}
}

func TestReplayF1WrongDeclaredSizeAcknowledged(t *testing.T) {
	s := replayServer(t)
	data := []byte("hello, bazel-remote")
	sum := sha256.Sum256(data)
	hash := hex.EncodeToString(sum[:])
	declared := int64(len(data) + 7)
	resp, err := s.BatchUpdateBlobs(context.Background(), &pb.BatchUpdateBlobsRequest{
		Requests: []*pb.BatchUpdateBlobsRequest_Request{{Digest: &pb.Digest{Hash: hash, SizeBytes: declared}, Data: data}},
	})
	if err != nil {
		t.Logf("rejected as a whole: %v", err)
		return
	}
	r := resp.Responses[0]
	found, _ := s.cache.Contains(context.Background(), cache.CAS, hash, declared)
	t.Logf("status=%d digest=%s/%d present=%v", r.Status.Code, r.Digest.Hash, r.Digest.SizeBytes, found)
	if r.Status.Code == 0 {
		t.Fatalf("REPLAY-CONFIRMED C01 violated: upload with declared size %d (actual %d) acknowledged OK; digest present afterwards: %v", declared, len(data), found)
	}
}

func TestReplayF15UnsupportedCompressorAcknowledged(t *testing.T) {
	s := replayServer(t)
	data := []byte("hello, bazel-remote")
	sum := sha256.Sum256(data)
	hash := hex.EncodeToString(sum[:])
	resp, err := s.BatchUpdateBlobs(context.Background(), &pb.BatchUpdateBlobsRequest{
		Requests: []*pb.BatchUpdateBlobsRequest_Request{{Digest: &pb.Digest{Hash: hash, SizeBytes: int64(len(data))}, Data: data, Compressor: pb.Compressor_DEFLATE}},
	})
	if err != nil {
		t.Logf("rejected as a whole: %v", err)
		return
	}
	r := resp.Responses[0]
	found, _ := s.cache.Contains(context.Background(), cache.CAS, hash, int64(len(data)))
	t.Logf("status=%d present=%v", r.Status.Code, found)
	if r.Status.Code == 0 {
		t.Fatalf("REPLAY-CONFIRMED C01 violated: upload with unsupported compressor acknowledged OK; digest present afterwards: %v", found)
	}
}
