package casblob

// Replay for finding F12 (property C14): obligations
//   casblob.GetUncompressedReadCloser/safety:slice#0 and casblob.GetZstdReadCloser/safety:slice#0
// A well-formed header whose first chunk decodes to fewer bytes than the chunk
// size promises: a read starting inside that chunk slices past its end.

import (
	"bytes"
	"encoding/binary"
	"fmt"
	"os"
	"testing"

	"github.com/buchgr/bazel-remote/v2/cache/disk/zstdimpl"
)

func TestReplayF12ShortChunk(t *testing.T) {
	z, err := zstdimpl.Get("go")
	if err != nil {
		t.Fatal(err)
	}
	c0 := z.EncodeAll([]byte("abcd"), nil) // decodes to 4 bytes, the header promises 16
	c1 := z.EncodeAll([]byte("0123456789abcdef"), nil)
	const cs = 16
	usize := int64(32)
	offs := []int64{chunkTableOffset + 3*8, 0, 0}
	offs[1] = offs[0] + int64(len(c0))
	offs[2] = offs[1] + int64(len(c1))
	var buf bytes.Buffer
	binary.Write(&buf, binary.LittleEndian, uint32(skippableFrameMagicNumber))
	binary.Write(&buf, binary.LittleEndian, uint32(3*8+21))
	binary.Write(&buf, binary.LittleEndian, usize)
	binary.Write(&buf, binary.LittleEndian, uint8(Zstandard))
	binary.Write(&buf, binary.LittleEndian, uint32(cs))
	binary.Write(&buf, binary.LittleEndian, int64(3))
	binary.Write(&buf, binary.LittleEndian, offs)
	buf.Write(c0)
	buf.Write(c1)
	name := t.TempDir() + "/blob"
	if err := os.WriteFile(name, buf.Bytes(), 0o644); err != nil {
		t.Fatal(err)
	}
	failed := false
	try := func(what string, fn func() error) {
		defer func() {
			if r := recover(); r != nil {
				failed = true
				fmt.Printf("REPLAY-CONFIRMED: %s panicked: %v\n", what, r)
			}
		}()
		t.Logf("%s: err=%v", what, fn())
	}
	try("GetUncompressedReadCloser(offset 10)", func() error {
		f, _ := os.Open(name)
		rc, err := GetUncompressedReadCloser(z, f, usize, 10)
		if rc != nil {
			rc.Close()
		}
		return err
	})
	try("GetZstdReadCloser(offset 10)", func() error {
		f, _ := os.Open(name)
		rc, err := GetZstdReadCloser(z, f, usize, 10)
		if rc != nil {
			rc.Close()
		}
		return err
	})
	if failed {
		t.Fatal("C14 violated: a stored blob made the reader panic")
	}
}
