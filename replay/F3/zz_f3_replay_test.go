package disk

// Replay for finding F3 (properties C03 / C07): obligation
//   disk.diskCache.availableOrTryProxy/call:RemoveElement#1:requires[current].1
// Two Gets of the same corrupt CAS entry both look the element up, release the
// lock, fail to read the file, re-lock and call RemoveElement with the element
// they remembered. A named pipe in place of the blob file parks both readers
// between their two critical sections, which makes the schedule deterministic.

import (
	"context"
	"crypto/sha256"
	"encoding/hex"
	"os"
	"path/filepath"
	"strings"
	"sync"
	"syscall"
	"testing"
	"time"

	"github.com/buchgr/bazel-remote/v2/cache"
	testutils "github.com/buchgr/bazel-remote/v2/utils"
)

func TestReplayF3DoubleRemove(t *testing.T) {
	dir := t.TempDir()
	c, err := New(dir, 100*BlockSize, WithAccessLogger(testutils.NewSilentLogger()))
	if err != nil {
		t.Fatal(err)
	}
	data := strings.Repeat("x", 1000)
	sum := sha256.Sum256([]byte(data))
	hash := hex.EncodeToString(sum[:])
	ctx := context.Background()
	// an unrelated entry, so that the accounting has something left to be wrong about
	other := strings.Repeat("y", 1000)
	osum := sha256.Sum256([]byte(other))
	if err := c.Put(ctx, cache.CAS, hex.EncodeToString(osum[:]), int64(len(other)), strings.NewReader(other)); err != nil {
		t.Fatal(err)
	}
	if err := c.Put(ctx, cache.CAS, hash, int64(len(data)), strings.NewReader(data)); err != nil {
		t.Fatal(err)
	}
	// locate the blob file and replace it by a FIFO
	var blob string
	filepath.Walk(dir, func(p string, info os.FileInfo, err error) error {
		if err == nil && !info.IsDir() && strings.Contains(p, hash) {
			blob = p
		}
		return nil
	})
	if blob == "" {
		t.Fatal("blob file not found")
	}
	if err := os.Remove(blob); err != nil {
		t.Fatal(err)
	}
	if err := syscall.Mkfifo(blob, 0o644); err != nil {
		t.Fatal(err)
	}
	var wg sync.WaitGroup
	for i := 0; i < 2; i++ {
		wg.Add(1)
		go func() {
			defer wg.Done()
			rc, _, _ := c.Get(ctx, cache.CAS, hash, int64(len(data)), 0)
			if rc != nil {
				rc.Close()
			}
		}()
	}
	// both readers are now blocked in os.Open (no writer yet), after their first critical section
	time.Sleep(300 * time.Millisecond)
	w, err := os.OpenFile(blob, os.O_WRONLY, 0)
	if err != nil {
		t.Fatal(err)
	}
	w.Close() // readers see an empty file: header read fails in both
	wg.Wait()
	total, reserved, items, _ := c.Stats()
	t.Logf("after the race: totalSize=%d reserved=%d items=%d", total, reserved, items)
	want := int64(items) * BlockSize
	if total != want+reserved {
		t.Fatalf("C03 violated: accounted size %d, but %d indexed entries of one block each (+%d reserved) = %d", total, items, reserved, want+reserved)
	}
}
