package main

// Replay for finding F7 (property C13), obligation
//   github.com/buchgr/bazel-remote/v2.startHttpServer/call:HandleFunc#1:asserts[status]
// With basic authentication configured, unauthenticated reads NOT allowed and endpoint
// metrics enabled, startHttpServer replaces the authenticated /status handler by
// middlewarestd.Handler("status", ..., h.StatusPageHandler): /status is served without credentials.

import (
	"fmt"
	"log"
	"net"
	"net/http"
	"os"
	"path/filepath"
	"testing"
	"time"

	auth "github.com/abbot/go-http-auth"
	"github.com/buchgr/bazel-remote/v2/cache/disk"
	"github.com/buchgr/bazel-remote/v2/config"
	testutils "github.com/buchgr/bazel-remote/v2/utils"
	"golang.org/x/sync/semaphore"
)

func TestReplayF7StatusUnauthenticatedWithEndpointMetrics(t *testing.T) {
	dir := t.TempDir()
	ht := filepath.Join(dir, "htpasswd")
	// user "alice", password "secret" (SHA1 scheme accepted by go-http-auth)
	if err := os.WriteFile(ht, []byte("alice:{SHA}5en6G6MezRroT3XKqkdPOmY/BfQ=\n"), 0o600); err != nil {
		t.Fatal(err)
	}
	l, err := net.Listen("tcp", "127.0.0.1:0")
	if err != nil {
		t.Fatal(err)
	}
	addr := l.Addr().String()
	l.Close()
	dc, err := disk.New(filepath.Join(dir, "cache"), 1<<20, disk.WithAccessLogger(testutils.NewSilentLogger()))
	if err != nil {
		t.Fatal(err)
	}
	c := &config.Config{
		HTTPAddress:               addr,
		HtpasswdFile:              ht,
		AllowUnauthenticatedReads: false,
		EnableEndpointMetrics:     true,
		MaxBlobSize:               1 << 20,
		AccessLogger:              log.New(os.Stderr, "", 0),
		ErrorLogger:               log.New(os.Stderr, "", 0),
	}
	var srv *http.Server
	sem := semaphore.NewWeighted(1)
	go func() { _ = startHttpServer(c, &srv, auth.HtpasswdFileProvider(ht), nil, sem, dc) }()
	var resp *http.Response
	for i := 0; i < 100; i++ {
		resp, err = http.Get(fmt.Sprintf("http://%s/status", addr))
		if err == nil {
			break
		}
		time.Sleep(50 * time.Millisecond)
	}
	if err != nil {
		t.Fatal(err)
	}
	defer resp.Body.Close()
	t.Logf("GET /status without credentials -> %d", resp.StatusCode)
	// control: the cache handler does ask for credentials
	r2, err := http.Get(fmt.Sprintf("http://%s/cas/e3b0c44298fc1c149afbf4c8996fb92427ae41e4649b934ca495991b7852b855", addr))
	if err == nil {
		t.Logf("GET /cas/<empty> without credentials -> %d", r2.StatusCode)
		r2.Body.Close()
	}
	if resp.StatusCode == http.StatusOK {
		t.Fatalf("REPLAY-CONFIRMED C13 violated: /status answered 200 without credentials although authentication is required for reads")
	}
}
