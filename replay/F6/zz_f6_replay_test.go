package disk

// Replay for finding F6 (property C12): obligation
//   disk.diskCache.get/call:commit#0:asserts[rawlength]
// A backend that claims size 10 but whose stream ends cleanly after 5 bytes
// (uncompressed storage, or any AC/RAW entry): the short stream is served with
// the claimed size and committed to the local cache under that size.

import (
	"context"
	"crypto/sha256"
	"encoding/hex"
	"io"
	"strings"
	"testing"

	"github.com/buchgr/bazel-remote/v2/cache"
	testutils "github.com/buchgr/bazel-remote/v2/utils"
)

type shortProxy struct{ claimed int64 }

func (p *shortProxy) Put(ctx context.Context, kind cache.EntryKind, hash string, logicalSize int64, sizeOnDisk int64, rc io.ReadCloser) {
	rc.Close()
}
func (p *shortProxy) Get(ctx context.Context, kind cache.EntryKind, hash string, size int64) (io.ReadCloser, int64, error) {
	return io.NopCloser(strings.NewReader("12345")), p.claimed, nil // 5 bytes, claims more
}
func (p *shortProxy) Contains(ctx context.Context, kind cache.EntryKind, hash string, size int64) (bool, int64) {
	return true, p.claimed
}

func TestReplayF6ShortProxyStream(t *testing.T) {
	dir := t.TempDir()
	c, err := New(dir, 100*BlockSize, WithAccessLogger(testutils.NewSilentLogger()),
		WithStorageMode("uncompressed"), WithProxyBackend(&shortProxy{claimed: 10}), WithProxyMaxBlobSize(1<<20))
	if err != nil {
		t.Fatal(err)
	}
	sum := sha256.Sum256([]byte("0123456789"))
	hash := hex.EncodeToString(sum[:])
	ctx := context.Background()
	rc, size, err := c.Get(ctx, cache.CAS, hash, 10, 0)
	if err != nil {
		t.Fatal(err)
	}
	if rc == nil {
		t.Log("miss (the short stream was rejected): property holds")
		return
	}
	data, _ := io.ReadAll(rc)
	rc.Close()
	t.Logf("hit: reported size %d, delivered %d bytes", size, len(data))
	if int64(len(data)) != size {
		t.Errorf("C12 violated: hit with size %d but only %d bytes of content", size, len(data))
	}
	// and the poisoned entry is now served from the local cache
	found, fsize := c.Contains(ctx, cache.CAS, hash, 10)
	if found {
		rc2, s2, _ := c.Get(ctx, cache.CAS, hash, 10, 0)
		if rc2 != nil {
			d2, _ := io.ReadAll(rc2)
			rc2.Close()
			if int64(len(d2)) != s2 {
				t.Errorf("C12 violated: local cache poisoned: Contains size %d, Get size %d, %d bytes stored", fsize, s2, len(d2))
			}
		}
	}
}
