; Prelude for govc: spec vocabulary shared by the contracts of buchgr/bazel-remote.
; Intended model: GSeq = finite duplicate-free sequences of integers; pushFront of an
; element already present moves it to the front; seqremove / mtf of a non-member are
; the identity. All axioms below hold in that model (argued in DESIGN.md).
; Every axiom carries "@needs": it is only emitted into queries that mention all
; of these symbols. Axioms are TRUSTED (listed in the evidence) and are
; sanity-tested for consistency by `govc selftest`.

(declare-sort GSeq 0)
(declare-sort GStr 0)
(declare-sort GBytes 0)

; 4 KiB rounding, clamped at 0 for negative arguments
(define-fun r4k ((n Int)) Int (* 4096 (div (+ n 4095) 4096)))
(define-fun r4kc ((n Int)) Int (ite (< n 0) 0 (* 4096 (div (+ n 4095) 4096))))

; --- abstract recency sequence of entry references (front = most recent) ------
(declare-fun member (GSeq Int) Bool)
(declare-fun seqlen (GSeq) Int)
(declare-fun pushFront (GSeq Int) GSeq)
(declare-fun seqremove (GSeq Int) GSeq)
(declare-fun mtf (GSeq Int) GSeq)
(declare-fun seqback (GSeq) Int)
(declare-fun seqfront (GSeq) Int)
(declare-fun dropped (GSeq GSeq) Bool)
; sum over members x of r4kc(A[itemOf(x)])
(declare-fun sum4k (GSeq (Array Int Int)) Int)
; the lruItem embedded in an entry (same symbol the engine generates for &e.value)
(declare-fun sub.cache.disk.entry.value (Int) Int)
(declare-fun subinv.cache.disk.entry.value (Int) Int)
(define-fun itemOf ((x Int)) Int (sub.cache.disk.entry.value x))
; path joining and formatting are uninterpreted (format string and arguments determine the result)
(declare-fun pjoin2 (GStr GStr) GStr)
(declare-fun pjoin3 (GStr GStr GStr) GStr)
(declare-fun pjoin4 (GStr GStr GStr GStr) GStr)
(declare-fun sprintf2 (GStr Int Int) GStr)
(declare-fun sprintf3 (GStr Int Int Int) GStr)
(declare-fun sprintf4 (GStr Int Int Int Int) GStr)
; strings.HasPrefix and regular-expression matching are uninterpreted
(declare-fun hasPrefix (GStr GStr) Bool)
(declare-fun reMatch (Int GStr) Bool)
(declare-fun gstr.len (GStr) Int)
; @axiom hasprefix-len
; @needs hasPrefix
(assert (forall ((s GStr) (p GStr)) (! (=> (hasPrefix s p) (>= (gstr.len s) (gstr.len p))) :pattern ((hasPrefix s p)))))
; code of a (hash, size) digest pair, for ghost sets of digests
(declare-fun dkey (GStr Int) Int)
; authentication (C13): the htpasswd secret of a user ("" = no such user), whether a password matches a secret,
; and whether a function value / handler is one that lets only authenticated requests through
(declare-fun userSecret (GStr) GStr)
(declare-fun secretMatches (GStr GStr) Bool)
(declare-fun authWrapped (Int) Bool)
(declare-fun writeAuthWrapped (Int) Bool)
; gRPC mTLS interceptors: 0 = not one, 1 = built with unauthenticated reads allowed, 2 = built without
(declare-fun mtlsUnary (Int) Int)
(declare-fun mtlsStream (Int) Int)
; net.SplitHostPort, uninterpreted: the port it returns and whether it succeeded
(declare-fun splitPort (GStr) GStr)
(declare-fun splitOK (GStr) Bool)
; urfave/cli flag lookups (C19), uninterpreted: the value the library reports for a flag name of a context
(declare-fun flagStr (Int GStr) GStr)
(declare-fun flagInt (Int GStr) Int)
(declare-fun flagInt64 (Int GStr) Int)
(declare-fun flagBool (Int GStr) Bool)
(declare-fun flagDur (Int GStr) Int)
; net.JoinHostPort and strconv.Itoa, uninterpreted
(declare-fun joinHP (GStr GStr) GStr)
(declare-fun itoa (Int) GStr)
; name of an open file
(declare-fun fileName (Int) GStr)
; eviction queue (ghost bag of entries handed to the remover)
(declare-fun qadd (GSeq Int) GSeq)

; nncount(A, o, n): number of non-zero entries among A[o], ..., A[o+n-1]
(declare-fun nncount ((Array Int Int) Int Int) Int)
; @axiom nncount-zero
; @needs nncount
(assert (forall ((A (Array Int Int)) (o Int)) (! (= (nncount A o 0) 0) :pattern ((nncount A o 0)))))
; @axiom nncount-step
; @needs nncount
(assert (forall ((A (Array Int Int)) (o Int) (a Int) (b Int)) (! (=> (and (>= a 0) (= b (+ a 1))) (= (nncount A o b) (+ (nncount A o a) (ite (= (select A (+ o a)) 0) 0 1)))) :pattern ((nncount A o a) (nncount A o b)))))
; @axiom nncount-strict
; @needs nncount
(assert (forall ((A (Array Int Int)) (o Int) (a Int) (b Int)) (! (=> (and (<= 0 a) (< a b) (not (= (select A (+ o a)) 0))) (< (nncount A o a) (nncount A o b))) :pattern ((nncount A o a) (nncount A o b)))))
; @axiom nncount-store-beyond
; @needs nncount
(assert (forall ((A (Array Int Int)) (o Int) (n Int) (k Int) (v Int)) (! (=> (>= k (+ o n)) (= (nncount (store A k v) o n) (nncount A o n))) :pattern ((nncount (store A k v) o n)))))
; @axiom nncount-range
; @needs nncount
(assert (forall ((A (Array Int Int)) (o Int) (n Int)) (! (=> (>= n 0) (and (<= 0 (nncount A o n)) (<= (nncount A o n) n))) :pattern ((nncount A o n)))))
; @axiom nncount-mono
; @needs nncount
(assert (forall ((A (Array Int Int)) (o Int) (a Int) (b Int)) (! (=> (and (<= 0 a) (<= a b)) (<= (nncount A o a) (nncount A o b))) :pattern ((nncount A o a) (nncount A o b)))))

; --- byte streams (what was read from a reader / fed to a hasher), abstract ---------
(declare-fun sempty () GBytes)
; sapp(s, A, o, n): s extended by the n bytes A[o], ..., A[o+n-1]
(declare-fun sapp (GBytes (Array Int Int) Int Int) GBytes)
(declare-fun scat (GBytes GBytes) GBytes)
; lower-case hex of the SHA-256 of a stream
(declare-fun hexsum (GBytes) GStr)
; the stream whose digest was written into the byte array with this identity by hash.Hash.Sum
(declare-fun sumsrc (Int) GBytes)
; @axiom scat-empty
; @needs scat sempty
(assert (forall ((a GBytes)) (! (= (scat a sempty) a) :pattern ((scat a sempty)))))
; @axiom scat-app
; @needs scat sapp
(assert (forall ((a GBytes) (b GBytes) (A (Array Int Int)) (o Int) (n Int)) (! (= (sapp (scat a b) A o n) (scat a (sapp b A o n))) :pattern ((sapp (scat a b) A o n)))))
; @axiom sapp-zero
; @needs sapp
(assert (forall ((a GBytes) (A (Array Int Int)) (o Int)) (! (= (sapp a A o 0) a) :pattern ((sapp a A o 0)))))

; boxing of strings into interface payloads, and interface-typed map keys
(declare-fun box.str (GStr) Int)
(declare-fun unbox.str (Int) GStr)
(define-fun boxstr ((s GStr)) Int (box.str s))
(declare-fun ikey (Int Int) Int)
(declare-fun ikey.tag (Int) Int)
(declare-fun ikey.val (Int) Int)
; @axiom box-str-inj
; @needs box.str
(assert (forall ((s GStr)) (! (= (unbox.str (box.str s)) s) :pattern ((box.str s)))))
; @axiom ikey-inj
; @needs ikey
(assert (forall ((t Int) (v Int)) (! (and (= (ikey.tag (ikey t v)) t) (= (ikey.val (ikey t v)) v)) :pattern ((ikey t v)))))

; @axiom seq-len-nonneg
; @needs seqlen
(assert (forall ((s GSeq)) (! (>= (seqlen s) 0) :pattern ((seqlen s)))))
; @axiom seq-member-len
; @needs member seqlen
(assert (forall ((s GSeq) (x Int)) (! (=> (member s x) (> (seqlen s) 0)) :pattern ((member s x)))))
; @axiom seq-back-member
; @needs seqback
(assert (forall ((s GSeq)) (! (=> (> (seqlen s) 0) (member s (seqback s))) :pattern ((seqback s)))))
; @axiom seq-front-member
; @needs seqfront
(assert (forall ((s GSeq)) (! (=> (> (seqlen s) 0) (member s (seqfront s))) :pattern ((seqfront s)))))
; @axiom seq-push-member
; @needs pushFront member
(assert (forall ((s GSeq) (x Int) (y Int)) (! (= (member (pushFront s x) y) (or (= y x) (member s y))) :pattern ((member (pushFront s x) y)))))
; @axiom seq-push-len
; @needs pushFront seqlen
(assert (forall ((s GSeq) (x Int)) (! (=> (not (member s x)) (= (seqlen (pushFront s x)) (+ (seqlen s) 1))) :pattern ((pushFront s x)))))
; @axiom seq-push-front
; @needs pushFront seqfront
(assert (forall ((s GSeq) (x Int)) (! (= (seqfront (pushFront s x)) x) :pattern ((pushFront s x)))))
; @axiom seq-push-back
; @needs pushFront seqback
(assert (forall ((s GSeq) (x Int)) (! (=> (and (> (seqlen s) 0) (not (member s x))) (= (seqback (pushFront s x)) (seqback s))) :pattern ((pushFront s x)))))

; @axiom seq-remove-member
; @needs seqremove member
(assert (forall ((s GSeq) (x Int) (y Int)) (! (= (member (seqremove s x) y) (and (member s y) (not (= y x)))) :pattern ((member (seqremove s x) y)))))
; @axiom seq-remove-len
; @needs seqremove seqlen
(assert (forall ((s GSeq) (x Int)) (! (=> (member s x) (= (seqlen (seqremove s x)) (- (seqlen s) 1))) :pattern ((seqremove s x)))))

; @axiom seq-mtf-member
; @needs mtf member
(assert (forall ((s GSeq) (x Int) (y Int)) (! (= (member (mtf s x) y) (member s y)) :pattern ((member (mtf s x) y)))))
; @axiom seq-mtf-len
; @needs mtf seqlen
(assert (forall ((s GSeq) (x Int)) (! (= (seqlen (mtf s x)) (seqlen s)) :pattern ((mtf s x)))))
; @axiom seq-mtf-front
; @needs mtf seqfront
(assert (forall ((s GSeq) (x Int)) (! (=> (member s x) (= (seqfront (mtf s x)) x)) :pattern ((mtf s x)))))

; @axiom seq-remove-front
; @needs seqremove seqfront
(assert (forall ((s GSeq) (x Int)) (! (=> (and (member s x) (not (= x (seqfront s)))) (= (seqfront (seqremove s x)) (seqfront s))) :pattern ((seqfront (seqremove s x))))))
; @axiom seq-front-back-single
; @needs seqfront seqback
(assert (forall ((s GSeq)) (! (=> (= (seqfront s) (seqback s)) (<= (seqlen s) 1)) :pattern ((seqfront s) (seqback s)))))
; @axiom sum-single
; @needs sum4k seqlen member
(assert (forall ((s GSeq) (x Int) (A (Array Int Int))) (! (=> (and (= (seqlen s) 1) (member s x)) (= (sum4k s A) (r4kc (select A (sub.cache.disk.entry.value x))))) :pattern ((sum4k s A) (member s x)))))

; eviction order: dropped(t, s) iff t is s with some elements removed from the back, one at a time
; @axiom seq-dropped-refl
; @needs dropped
(assert (forall ((s GSeq)) (! (dropped s s) :pattern ((dropped s s)))))
; @axiom seq-dropped-step
; @needs dropped seqremove seqback
(assert (forall ((t GSeq) (s GSeq)) (! (=> (and (dropped t s) (> (seqlen t) 0)) (dropped (seqremove t (seqback t)) s)) :pattern ((dropped (seqremove t (seqback t)) s)))))

; @axiom sum-nonneg
; @needs sum4k
(assert (forall ((s GSeq) (A (Array Int Int))) (! (>= (sum4k s A) 0) :pattern ((sum4k s A)))))
; @axiom sum-empty
; @needs sum4k seqlen
(assert (forall ((s GSeq) (A (Array Int Int))) (! (=> (= (seqlen s) 0) (= (sum4k s A) 0)) :pattern ((sum4k s A)))))
; @axiom sum-push
; @needs sum4k pushFront
(assert (forall ((s GSeq) (x Int) (A (Array Int Int))) (! (=> (not (member s x))
   (= (sum4k (pushFront s x) A) (+ (sum4k s A) (r4kc (select A (sub.cache.disk.entry.value x))))))
   :pattern ((sum4k (pushFront s x) A)))))
; @axiom sum-remove
; @needs sum4k seqremove
(assert (forall ((s GSeq) (x Int) (A (Array Int Int))) (! (=> (member s x)
   (= (sum4k (seqremove s x) A) (- (sum4k s A) (r4kc (select A (sub.cache.disk.entry.value x))))))
   :pattern ((sum4k (seqremove s x) A)))))
; @axiom sum-mtf
; @needs sum4k mtf
(assert (forall ((s GSeq) (x Int) (A (Array Int Int))) (! (= (sum4k (mtf s x) A) (sum4k s A)) :pattern ((sum4k (mtf s x) A)))))
; @axiom sum-store
; @needs sum4k
(assert (forall ((s GSeq) (A (Array Int Int)) (y Int) (v Int)) (!
   (= (sum4k s (store A y v))
      (+ (sum4k s A)
         (ite (and (member s (subinv.cache.disk.entry.value y))
                   (= (sub.cache.disk.entry.value (subinv.cache.disk.entry.value y)) y))
              (- (r4kc v) (r4kc (select A y)))
              0)))
   :pattern ((sum4k s (store A y v))))))
; @axiom item-inj
; @needs sub.cache.disk.entry.value
(assert (forall ((x Int)) (! (= (subinv.cache.disk.entry.value (sub.cache.disk.entry.value x)) x)
   :pattern ((sub.cache.disk.entry.value x)))))
