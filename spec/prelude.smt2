; Prelude for govc: spec vocabulary shared by the contracts of buchgr/bazel-remote.
; Every axiom carries "@needs": it is only emitted into queries that mention all
; of these symbols. Axioms are TRUSTED (listed in the evidence) and are
; sanity-tested for consistency by `govc selftest`.

(declare-sort GSeq 0)
(declare-sort GStr 0)

; 4 KiB rounding, clamped at 0 for negative arguments
(define-fun r4k ((n Int)) Int (* 4096 (div (+ n 4095) 4096)))
(define-fun r4kc ((n Int)) Int (ite (< n 0) 0 (* 4096 (div (+ n 4095) 4096))))

; --- abstract recency sequence of entry references (front = most recent) ------
(declare-fun seq.member (GSeq Int) Bool)
(declare-fun seq.len (GSeq) Int)
(declare-fun seq.pushFront (GSeq Int) GSeq)
(declare-fun seq.remove (GSeq Int) GSeq)
(declare-fun seq.mtf (GSeq Int) GSeq)
(declare-fun seq.back (GSeq) Int)
(declare-fun seq.front (GSeq) Int)
(declare-fun seq.dropped (GSeq GSeq) Bool)
; sum over members x of r4kc(A[itemOf(x)])
(declare-fun seq.sum4k (GSeq (Array Int Int)) Int)
; the lruItem embedded in an entry (same symbol the engine generates for &e.value)
(declare-fun sub.github.com.buchgr.bazel_remote.v2.cache.disk.entry.value (Int) Int)
(declare-fun subinv.github.com.buchgr.bazel_remote.v2.cache.disk.entry.value (Int) Int)

; @axiom seq-len-nonneg
; @needs seq.len
(assert (forall ((s GSeq)) (! (>= (seq.len s) 0) :pattern ((seq.len s)))))
; @axiom seq-member-len
; @needs seq.member seq.len
(assert (forall ((s GSeq) (x Int)) (! (=> (seq.member s x) (> (seq.len s) 0)) :pattern ((seq.member s x)))))
; @axiom seq-back-member
; @needs seq.back
(assert (forall ((s GSeq)) (! (=> (> (seq.len s) 0) (seq.member s (seq.back s))) :pattern ((seq.back s)))))
; @axiom seq-front-member
; @needs seq.front
(assert (forall ((s GSeq)) (! (=> (> (seq.len s) 0) (seq.member s (seq.front s))) :pattern ((seq.front s)))))
; @axiom seq-member-nonnil
; @needs seq.member
(assert (forall ((s GSeq) (x Int)) (! (=> (seq.member s x) (not (= x 0))) :pattern ((seq.member s x)))))

; @axiom seq-push-member
; @needs seq.pushFront seq.member
(assert (forall ((s GSeq) (x Int) (y Int)) (! (= (seq.member (seq.pushFront s x) y) (or (= y x) (seq.member s y))) :pattern ((seq.member (seq.pushFront s x) y)))))
; @axiom seq-push-len
; @needs seq.pushFront seq.len
(assert (forall ((s GSeq) (x Int)) (! (=> (not (seq.member s x)) (= (seq.len (seq.pushFront s x)) (+ (seq.len s) 1))) :pattern ((seq.pushFront s x)))))
; @axiom seq-push-front
; @needs seq.pushFront seq.front
(assert (forall ((s GSeq) (x Int)) (! (= (seq.front (seq.pushFront s x)) x) :pattern ((seq.pushFront s x)))))
; @axiom seq-push-back
; @needs seq.pushFront seq.back
(assert (forall ((s GSeq) (x Int)) (! (=> (> (seq.len s) 0) (= (seq.back (seq.pushFront s x)) (seq.back s))) :pattern ((seq.pushFront s x)))))

; @axiom seq-remove-member
; @needs seq.remove seq.member
(assert (forall ((s GSeq) (x Int) (y Int)) (! (= (seq.member (seq.remove s x) y) (and (seq.member s y) (not (= y x)))) :pattern ((seq.member (seq.remove s x) y)))))
; @axiom seq-remove-len
; @needs seq.remove seq.len
(assert (forall ((s GSeq) (x Int)) (! (=> (seq.member s x) (= (seq.len (seq.remove s x)) (- (seq.len s) 1))) :pattern ((seq.remove s x)))))

; @axiom seq-mtf-member
; @needs seq.mtf seq.member
(assert (forall ((s GSeq) (x Int) (y Int)) (! (= (seq.member (seq.mtf s x) y) (seq.member s y)) :pattern ((seq.member (seq.mtf s x) y)))))
; @axiom seq-mtf-len
; @needs seq.mtf seq.len
(assert (forall ((s GSeq) (x Int)) (! (= (seq.len (seq.mtf s x)) (seq.len s)) :pattern ((seq.mtf s x)))))
; @axiom seq-mtf-front
; @needs seq.mtf seq.front
(assert (forall ((s GSeq) (x Int)) (! (=> (seq.member s x) (= (seq.front (seq.mtf s x)) x)) :pattern ((seq.mtf s x)))))

; eviction order: dropped(t, s) iff t is s with some elements removed from the back, one at a time
; @axiom seq-dropped-refl
; @needs seq.dropped
(assert (forall ((s GSeq)) (! (seq.dropped s s) :pattern ((seq.dropped s s)))))
; @axiom seq-dropped-step
; @needs seq.dropped seq.remove seq.back
(assert (forall ((t GSeq) (s GSeq)) (! (=> (and (seq.dropped t s) (> (seq.len t) 0)) (seq.dropped (seq.remove t (seq.back t)) s)) :pattern ((seq.dropped (seq.remove t (seq.back t)) s)))))

; @axiom sum-nonneg
; @needs seq.sum4k
(assert (forall ((s GSeq) (A (Array Int Int))) (! (>= (seq.sum4k s A) 0) :pattern ((seq.sum4k s A)))))
; @axiom sum-empty
; @needs seq.sum4k seq.len
(assert (forall ((s GSeq) (A (Array Int Int))) (! (=> (= (seq.len s) 0) (= (seq.sum4k s A) 0)) :pattern ((seq.sum4k s A)))))
; @axiom sum-push
; @needs seq.sum4k seq.pushFront
(assert (forall ((s GSeq) (x Int) (A (Array Int Int))) (! (=> (not (seq.member s x))
   (= (seq.sum4k (seq.pushFront s x) A) (+ (seq.sum4k s A) (r4kc (select A (sub.github.com.buchgr.bazel_remote.v2.cache.disk.entry.value x))))))
   :pattern ((seq.sum4k (seq.pushFront s x) A)))))
; @axiom sum-remove
; @needs seq.sum4k seq.remove
(assert (forall ((s GSeq) (x Int) (A (Array Int Int))) (! (=> (seq.member s x)
   (= (seq.sum4k (seq.remove s x) A) (- (seq.sum4k s A) (r4kc (select A (sub.github.com.buchgr.bazel_remote.v2.cache.disk.entry.value x))))))
   :pattern ((seq.sum4k (seq.remove s x) A)))))
; @axiom sum-mtf
; @needs seq.sum4k seq.mtf
(assert (forall ((s GSeq) (x Int) (A (Array Int Int))) (! (= (seq.sum4k (seq.mtf s x) A) (seq.sum4k s A)) :pattern ((seq.sum4k (seq.mtf s x) A)))))
; @axiom sum-store
; @needs seq.sum4k
(assert (forall ((s GSeq) (A (Array Int Int)) (y Int) (v Int)) (!
   (= (seq.sum4k s (store A y v))
      (+ (seq.sum4k s A)
         (ite (and (seq.member s (subinv.github.com.buchgr.bazel_remote.v2.cache.disk.entry.value y))
                   (= (sub.github.com.buchgr.bazel_remote.v2.cache.disk.entry.value (subinv.github.com.buchgr.bazel_remote.v2.cache.disk.entry.value y)) y))
              (- (r4kc v) (r4kc (select A y)))
              0)))
   :pattern ((seq.sum4k s (store A y v))))))
; @axiom item-inj
; @needs sub.github.com.buchgr.bazel_remote.v2.cache.disk.entry.value
(assert (forall ((x Int)) (! (= (subinv.github.com.buchgr.bazel_remote.v2.cache.disk.entry.value (sub.github.com.buchgr.bazel_remote.v2.cache.disk.entry.value x)) x)
   :pattern ((sub.github.com.buchgr.bazel_remote.v2.cache.disk.entry.value x)))))
